//! S1: the abstract reference model: a tree of storages holding
//! case-insensitively unique names whose leaves are byte vectors.
//! Imports nothing from `cfb`.
use crate::names;
use serde::{Deserialize, Serialize};

pub const FILETIME_UNIX_EPOCH: u64 = 116_444_736_000_000_000;

#[derive(Clone, Copy, Debug, PartialEq, Eq, Hash, PartialOrd, Ord, Serialize, Deserialize)]
pub enum Kind {
    Root,
    Storage,
    Stream,
}

#[derive(Clone, Debug, PartialEq, Eq)]
pub struct Node {
    pub name: String,
    pub kind: Kind,
    pub clsid: [u8; 16],
    pub state_bits: u32,
    pub created: u64,
    pub modified: u64,
    pub data: Vec<u8>,
    pub children: Vec<Node>,
}

#[derive(Clone, Copy, Debug, PartialEq, Eq, Hash, PartialOrd, Ord, Serialize, Deserialize)]
pub enum EKind {
    NotFound,
    AlreadyExists,
    InvalidInput,
    InvalidData,
    Other,
}

/// What the implementation did, reduced to what the model defines.
#[derive(Clone, Debug, PartialEq, Eq)]
pub enum Outcome {
    Ok,
    Err(EKind, String),
    Panic(String),
}

impl Outcome {
    pub fn is_ok(&self) -> bool {
        matches!(self, Outcome::Ok)
    }
    pub fn is_refusal(&self) -> bool {
        matches!(
            self,
            Outcome::Err(EKind::NotFound, _)
                | Outcome::Err(EKind::AlreadyExists, _)
                | Outcome::Err(EKind::InvalidInput, _)
        )
    }
    pub fn short(&self) -> String {
        match self {
            Outcome::Ok => "Ok".into(),
            Outcome::Err(k, m) => format!("Err({:?}: {})", k, m),
            Outcome::Panic(m) => format!("PANIC({})", m),
        }
    }
}

/// One logical entry as every listing must report it.
#[derive(Clone, Debug, PartialEq, Eq, Serialize, Deserialize)]
pub struct EntryObs {
    pub path: String,
    pub name: String,
    pub kind: Kind,
    pub clsid: [u8; 16],
    pub state_bits: u32,
    pub created: u64,
    pub modified: u64,
    pub len: u64,
}

/// The complete logical content: walk order (pre-order, siblings in CFB
/// order) with metadata, and the bytes of every stream.
#[derive(Clone, Debug, PartialEq, Eq)]
pub struct Dump {
    pub entries: Vec<EntryObs>,
    pub contents: Vec<(String, Vec<u8>)>,
}

impl Dump {
    pub fn diff(&self, other: &Dump) -> Option<String> {
        if self.entries.len() != other.entries.len() {
            return Some(format!(
                "entry count {} vs {}: {:?} vs {:?}",
                self.entries.len(),
                other.entries.len(),
                self.entries.iter().map(|e| e.path.clone()).collect::<Vec<_>>(),
                other.entries.iter().map(|e| e.path.clone()).collect::<Vec<_>>()
            ));
        }
        for (a, b) in self.entries.iter().zip(other.entries.iter()) {
            if a != b {
                return Some(format!("entry differs: {:?} vs {:?}", a, b));
            }
        }
        if self.contents.len() != other.contents.len() {
            return Some("content count differs".into());
        }
        for ((pa, da), (pb, db)) in self.contents.iter().zip(other.contents.iter()) {
            if pa != pb {
                return Some(format!("content path {} vs {}", pa, pb));
            }
            if da != db {
                let pos = da.iter().zip(db.iter()).position(|(x, y)| x != y);
                return Some(format!(
                    "content of {} differs: len {} vs {}, first diff at {:?} ({:?} vs {:?})",
                    pa,
                    da.len(),
                    db.len(),
                    pos,
                    pos.map(|p| da[p]),
                    pos.map(|p| db[p])
                ));
            }
        }
        None
    }
}

/// Verdict of the model about one outcome.
pub type Verdict = Result<(), String>;

fn expect_err(got: &Outcome, allowed: &[EKind], why: &str) -> Verdict {
    match got {
        Outcome::Err(k, _) if allowed.contains(k) => Ok(()),
        _ => Err(format!("expected Err{:?} ({}), got {}", allowed, why, got.short())),
    }
}

fn expect_ok(got: &Outcome, why: &str) -> Verdict {
    match got {
        Outcome::Ok => Ok(()),
        _ => Err(format!("expected Ok ({}), got {}", why, got.short())),
    }
}

impl Node {
    pub fn new_root() -> Node {
        Node {
            name: "Root Entry".into(),
            kind: Kind::Root,
            clsid: [0; 16],
            state_bits: 0,
            created: 0,
            modified: 0,
            data: Vec::new(),
            children: Vec::new(),
        }
    }
    pub fn new_child(name: &str, kind: Kind, ts: u64) -> Node {
        Node {
            name: name.to_string(),
            kind,
            clsid: [0; 16],
            state_bits: 0,
            created: if kind == Kind::Stream { 0 } else { ts },
            modified: if kind == Kind::Stream { 0 } else { ts },
            data: Vec::new(),
            children: Vec::new(),
        }
    }
    pub fn is_storage(&self) -> bool {
        self.kind != Kind::Stream
    }
    fn child_idx(&self, name: &str) -> Option<usize> {
        self.children.iter().position(|c| names::eq(&c.name, name))
    }
    pub fn find(&self, path: &[String]) -> Option<&Node> {
        let mut cur = self;
        for n in path {
            if cur.kind == Kind::Stream {
                return None;
            }
            cur = &cur.children[cur.child_idx(n)?];
        }
        Some(cur)
    }
    pub fn find_mut(&mut self, path: &[String]) -> Option<&mut Node> {
        let mut cur = self;
        for n in path {
            if cur.kind == Kind::Stream {
                return None;
            }
            let i = cur.child_idx(n)?;
            cur = &mut cur.children[i];
        }
        Some(cur)
    }
    pub fn sorted_children(&self) -> Vec<&Node> {
        let mut v: Vec<&Node> = self.children.iter().collect();
        v.sort_by(|a, b| names::cmp(&a.name, &b.name));
        v
    }
    pub fn count(&self) -> usize {
        1 + self.children.iter().map(|c| c.count()).sum::<usize>()
    }

    fn entry_obs(&self, path: &str) -> EntryObs {
        EntryObs {
            path: path.to_string(),
            name: self.name.clone(),
            kind: self.kind,
            clsid: self.clsid,
            state_bits: self.state_bits,
            created: self.created,
            modified: self.modified,
            len: self.data.len() as u64,
        }
    }

    pub fn join(parent: &str, name: &str) -> String {
        if parent == "/" {
            format!("/{}", name)
        } else {
            format!("{}/{}", parent, name)
        }
    }

    fn walk_into(&self, path: &str, out: &mut Vec<EntryObs>) {
        out.push(self.entry_obs(path));
        for c in self.sorted_children() {
            c.walk_into(&Node::join(path, &c.name), out);
        }
    }

    /// Pre-order walk starting at (and including) the node found at `names`.
    pub fn walk_from(&self, names_: &[String]) -> Option<Vec<EntryObs>> {
        let (node, path) = self.find_with_path(names_)?;
        let mut out = Vec::new();
        node.walk_into(&path, &mut out);
        Some(out)
    }

    /// Resolves a name chain and returns the node with its canonical path
    /// built from the *stored* names... no: the library reports the path as
    /// the caller spelled it (normalised), so we keep the caller's spelling
    /// for the start node and stored names below it.
    pub fn find_with_path(&self, names_: &[String]) -> Option<(&Node, String)> {
        let node = self.find(names_)?;
        let mut path = String::from("/");
        for n in names_ {
            path = Node::join(&path, n);
        }
        Some((node, path))
    }

    /// Non-recursive listing of a storage.
    pub fn list(&self, names_: &[String]) -> Option<Vec<EntryObs>> {
        let (node, path) = self.find_with_path(names_)?;
        Some(
            node.sorted_children()
                .into_iter()
                .map(|c| c.entry_obs(&Node::join(&path, &c.name)))
                .collect(),
        )
    }

    pub fn entry(&self, names_: &[String]) -> Option<EntryObs> {
        let (node, path) = self.find_with_path(names_)?;
        Some(node.entry_obs(&path))
    }

    pub fn dump(&self) -> Dump {
        let mut entries = Vec::new();
        self.walk_into("/", &mut entries);
        let mut contents = Vec::new();
        self.contents_into("/", &mut contents);
        Dump { entries, contents }
    }

    fn contents_into(&self, path: &str, out: &mut Vec<(String, Vec<u8>)>) {
        if self.kind == Kind::Stream {
            out.push((path.to_string(), self.data.clone()));
        }
        for c in self.sorted_children() {
            c.contents_into(&Node::join(path, &c.name), out);
        }
    }

    /// All paths (canonical, stored spelling) of the tree in walk order.
    pub fn all_paths(&self) -> Vec<(String, Kind)> {
        self.dump().entries.into_iter().map(|e| (e.path, e.kind)).collect()
    }
}

/// The model proper: a root node plus the pinned timestamp that new
/// storages receive (the harness pins them through the public API).
#[derive(Clone, Debug, PartialEq, Eq)]
pub struct Model {
    pub root: Node,
    pub pin: u64,
}

#[derive(Clone, Copy, Debug, PartialEq, Eq)]
pub enum CreateKind {
    Storage,
    Stream,
    NewStream,
}

impl Model {
    pub fn new(pin: u64) -> Model {
        Model { root: Node::new_root(), pin }
    }

    /// Creation of one object.  Returns the names of created storages (so the
    /// harness can pin their times).
    pub fn create(&mut self, path: &str, what: CreateKind, got: &Outcome) -> Result<Vec<String>, String> {
        let names_ = match names::normalise(path) {
            Ok(n) => n,
            Err(()) => {
                expect_err(got, &[EKind::InvalidInput], "path escapes the root")?;
                return Ok(vec![]);
            }
        };
        if names_.is_empty() {
            expect_err(got, &[EKind::AlreadyExists], "the root always exists")?;
            return Ok(vec![]);
        }
        if let Some(node) = self.root.find(&names_) {
            match (what, node.kind) {
                (CreateKind::Stream, Kind::Stream) => {
                    expect_ok(got, "create_stream replaces an existing stream")?;
                    self.root.find_mut(&names_).unwrap().data.clear();
                    return Ok(vec![]);
                }
                _ => {
                    expect_err(got, &[EKind::AlreadyExists], "name taken")?;
                    return Ok(vec![]);
                }
            }
        }
        let (parent_names, last) = names_.split_at(names_.len() - 1);
        let name = &last[0];
        let name_ok = names::is_valid(name);
        let mut allowed: Vec<EKind> = Vec::new();
        let mut why = String::new();
        match self.root.find(parent_names) {
            None => {
                allowed.push(EKind::NotFound);
                why.push_str("parent missing;");
                // a stream (or an invalid name) somewhere along the parent
                // chain: InvalidInput is a defensible answer as well
                if self.chain_hits_stream(parent_names)
                    || parent_names.iter().any(|n| !names::is_valid(n))
                {
                    allowed.push(EKind::InvalidInput);
                }
            }
            Some(p) if p.kind == Kind::Stream => {
                allowed.push(EKind::NotFound);
                allowed.push(EKind::InvalidInput);
                why.push_str("parent is a stream;");
            }
            Some(_) => {}
        }
        if !name_ok {
            allowed.push(EKind::InvalidInput);
            why.push_str("invalid name;");
        }
        if !allowed.is_empty() {
            expect_err(got, &allowed, &why)?;
            return Ok(vec![]);
        }
        expect_ok(got, "fresh valid name under an existing storage")?;
        let kind = if what == CreateKind::Storage { Kind::Storage } else { Kind::Stream };
        let pin = self.pin;
        let parent = self.root.find_mut(parent_names).unwrap();
        parent.children.push(Node::new_child(name, kind, pin));
        if kind == Kind::Storage {
            let mut p = String::from("/");
            for n in &names_ {
                p = Node::join(&p, n);
            }
            Ok(vec![p])
        } else {
            Ok(vec![])
        }
    }

    fn chain_hits_stream(&self, names_: &[String]) -> bool {
        let mut cur = &self.root;
        for n in names_ {
            if cur.kind == Kind::Stream {
                return true;
            }
            match cur.child_idx(n) {
                Some(i) => cur = &cur.children[i],
                None => return false,
            }
        }
        cur.kind == Kind::Stream
    }

    pub fn create_storage_all(&mut self, path: &str, got: &Outcome) -> Result<Vec<String>, String> {
        let names_ = match names::normalise(path) {
            Ok(n) => n,
            Err(()) => {
                expect_err(got, &[EKind::InvalidInput], "path escapes the root")?;
                return Ok(vec![]);
            }
        };
        // A stream in the way is AlreadyExists (pinned by the suite); an
        // invalid name is InvalidInput; both apply -> either.  A refusal
        // must leave nothing behind (C10), so the model creates nothing.
        let mut allowed = Vec::new();
        let mut why = String::new();
        let mut cur = &self.root;
        let mut missing_from = names_.len();
        for (i, n) in names_.iter().enumerate() {
            match cur.child_idx(n) {
                Some(ix) => {
                    cur = &cur.children[ix];
                    if cur.kind == Kind::Stream {
                        allowed.push(EKind::AlreadyExists);
                        why.push_str("stream in the way;");
                        missing_from = names_.len();
                        break;
                    }
                }
                None => {
                    missing_from = i;
                    break;
                }
            }
        }
        if names_.iter().any(|n| !names::is_valid(n)) {
            allowed.push(EKind::InvalidInput);
            why.push_str("invalid name;");
        }
        let _ = missing_from.min(names_.len());
        if !allowed.is_empty() {
            expect_err(got, &allowed, &why)?;
            return Ok(vec![]);
        }
        expect_ok(got, "create_storage_all")?;
        let pin = self.pin;
        let mut created = Vec::new();
        for i in missing_from..names_.len() {
            let parent = self.root.find_mut(&names_[..i]).unwrap();
            parent.children.push(Node::new_child(&names_[i], Kind::Storage, pin));
            let mut p = String::from("/");
            for n in &names_[..=i] {
                p = Node::join(&p, n);
            }
            created.push(p);
        }
        Ok(created)
    }

    pub fn remove_stream(&mut self, path: &str, got: &Outcome) -> Verdict {
        let names_ = match names::normalise(path) {
            Ok(n) => n,
            Err(()) => return expect_err(got, &[EKind::InvalidInput], "path escapes the root"),
        };
        match self.root.find(&names_) {
            None => expect_err(got, &[EKind::NotFound], "no such stream"),
            Some(n) if n.kind != Kind::Stream => expect_err(got, &[EKind::InvalidInput], "not a stream"),
            Some(_) => {
                expect_ok(got, "remove existing stream")?;
                self.detach(&names_);
                Ok(())
            }
        }
    }

    pub fn remove_storage(&mut self, path: &str, got: &Outcome) -> Verdict {
        let names_ = match names::normalise(path) {
            Ok(n) => n,
            Err(()) => return expect_err(got, &[EKind::InvalidInput], "path escapes the root"),
        };
        match self.root.find(&names_) {
            None => expect_err(got, &[EKind::NotFound], "no such storage"),
            Some(n) if n.kind == Kind::Root => expect_err(got, &[EKind::InvalidInput], "cannot remove root"),
            Some(n) if n.kind == Kind::Stream => expect_err(got, &[EKind::InvalidInput], "not a storage"),
            Some(n) if !n.children.is_empty() => expect_err(got, &[EKind::InvalidInput], "storage not empty"),
            Some(_) => {
                expect_ok(got, "remove empty storage")?;
                self.detach(&names_);
                Ok(())
            }
        }
    }

    pub fn remove_storage_all(&mut self, path: &str, got: &Outcome) -> Verdict {
        let names_ = match names::normalise(path) {
            Ok(n) => n,
            Err(()) => return expect_err(got, &[EKind::InvalidInput], "path escapes the root"),
        };
        match self.root.find(&names_) {
            None => expect_err(got, &[EKind::NotFound], "no such storage"),
            Some(n) if n.kind == Kind::Root => {
                expect_ok(got, "remove_storage_all on root empties it")?;
                self.root.children.clear();
                Ok(())
            }
            Some(n) if n.kind == Kind::Stream => {
                // documentation is silent: either refuse, or remove the stream
                match got {
                    Outcome::Ok => {
                        self.detach(&names_);
                        Ok(())
                    }
                    _ => expect_err(got, &[EKind::InvalidInput], "remove_storage_all on a stream"),
                }
            }
            Some(_) => {
                expect_ok(got, "remove_storage_all")?;
                self.detach(&names_);
                Ok(())
            }
        }
    }

    fn detach(&mut self, names_: &[String]) {
        let (parent, last) = names_.split_at(names_.len() - 1);
        let p = self.root.find_mut(parent).unwrap();
        let i = p.child_idx(&last[0]).unwrap();
        p.children.remove(i);
    }

    /// Result class expected from a lookup-style call: Ok(node) / error kinds.
    pub fn lookup(&self, path: &str) -> Result<Option<(&Node, Vec<String>)>, ()> {
        let names_ = names::normalise(path)?;
        Ok(self.root.find(&names_).map(|n| (n, names_)))
    }

    pub fn set_state_bits(&mut self, path: &str, bits: u32, got: &Outcome) -> Verdict {
        let names_ = match names::normalise(path) {
            Ok(n) => n,
            Err(()) => return expect_err(got, &[EKind::InvalidInput], "path escapes the root"),
        };
        match self.root.find_mut(&names_) {
            None => expect_err(got, &[EKind::NotFound], "no such object"),
            Some(n) => {
                expect_ok(got, "set_state_bits")?;
                n.state_bits = bits;
                Ok(())
            }
        }
    }

    pub fn set_clsid(&mut self, path: &str, clsid: [u8; 16], got: &Outcome) -> Verdict {
        let names_ = match names::normalise(path) {
            Ok(n) => n,
            Err(()) => return expect_err(got, &[EKind::InvalidInput], "path escapes the root"),
        };
        match self.root.find_mut(&names_) {
            None => expect_err(got, &[EKind::NotFound], "no such object"),
            Some(n) if n.kind == Kind::Stream => expect_err(got, &[EKind::InvalidInput], "clsid on a stream"),
            Some(n) => {
                expect_ok(got, "set_storage_clsid")?;
                n.clsid = clsid;
                Ok(())
            }
        }
    }

    /// `created`: true = creation time, false = modification time.
    pub fn set_time(&mut self, path: &str, created: bool, filetime: u64, got: &Outcome) -> Verdict {
        let names_ = match names::normalise(path) {
            Ok(n) => n,
            Err(()) => return expect_err(got, &[EKind::InvalidInput], "path escapes the root"),
        };
        match self.root.find_mut(&names_) {
            None => expect_err(got, &[EKind::NotFound], "no such object"),
            Some(n) => {
                expect_ok(got, "set time")?;
                if n.kind != Kind::Stream {
                    if created {
                        n.created = filetime;
                    } else {
                        n.modified = filetime;
                    }
                }
                Ok(())
            }
        }
    }

    pub fn stream_mut(&mut self, path: &str) -> Option<&mut Node> {
        let names_ = names::normalise(path).ok()?;
        let n = self.root.find_mut(&names_)?;
        if n.kind == Kind::Stream {
            Some(n)
        } else {
            None
        }
    }
}

/// Converts (seconds, nanos) relative to the Unix epoch (i128 arithmetic) to
/// the FILETIME the format must store: 100 ns units since 1601, truncated
/// toward the Unix epoch, clamped to [0, 2^64-1].
pub fn filetime_from_unix(neg: bool, secs: u64, nanos: u32) -> u64 {
    let delta: i128 = (secs as i128) * 10_000_000 + (nanos as i128) / 100;
    let v: i128 = if neg { FILETIME_UNIX_EPOCH as i128 - delta } else { FILETIME_UNIX_EPOCH as i128 + delta };
    if v < 0 {
        0
    } else if v > u64::MAX as i128 {
        u64::MAX
    } else {
        v as u64
    }
}
