//! Operations on the real `CompoundFile`, their model twins, and S5
//! (observation through the public API).
use crate::backend::MemFile;
use crate::names;
use crate::refmodel::{self, CreateKind, Dump, EKind, EntryObs, Kind, Model, Node, Outcome};
use cfb::{CompoundFile, Version};
use serde::{Deserialize, Serialize};
use std::cell::RefCell;
use std::io::{self, Read, Seek, SeekFrom, Write};
use std::panic::{catch_unwind, AssertUnwindSafe};
use std::time::{Duration, SystemTime, UNIX_EPOCH};

#[derive(Clone, Copy, Debug, PartialEq, Eq, Hash, PartialOrd, Ord, Serialize, Deserialize)]
pub struct TimeSpec {
    pub neg: bool,
    pub secs: u64,
    pub nanos: u32,
}

impl TimeSpec {
    pub fn to_system_time(self) -> Option<SystemTime> {
        let d = Duration::new(self.secs, self.nanos);
        if self.neg {
            UNIX_EPOCH.checked_sub(d)
        } else {
            UNIX_EPOCH.checked_add(d)
        }
    }
    pub fn filetime(self) -> u64 {
        refmodel::filetime_from_unix(self.neg, self.secs, self.nanos)
    }
}

/// The instant every new storage is pinned to: 2001-09-09T01:46:40Z + 100 ns.
pub const PIN: TimeSpec = TimeSpec { neg: false, secs: 1_000_000_000, nanos: 100 };

pub fn pin_filetime() -> u64 {
    PIN.filetime()
}

#[derive(Clone, Debug, PartialEq, Eq, Hash, PartialOrd, Ord, Serialize, Deserialize)]
pub enum Op {
    CreateStorage(String),
    CreateStorageAll(String),
    CreateStream(String),
    CreateNewStream(String),
    RemoveStream(String),
    RemoveStorage(String),
    RemoveStorageAll(String),
    /// create_stream + write_all(pattern of n bytes) + flush
    Rewrite(String, usize),
    /// open_stream + seek(Start(off)) + write_all(n bytes) + flush
    Patch(String, u64, usize),
    /// open_stream + seek(End(0)) + write_all(n bytes) + flush
    Append(String, usize),
    /// open_stream + seek(Start(off)) + write_all(n bytes) + (no flush, no seek) read of up to r bytes
    /// through the same handle + flush
    PatchRead(String, u64, usize, usize),
    /// open_stream + set_len(n)
    SetLen(String, u64),
    SetStateBits(String, u32),
    SetClsid(String, [u8; 16]),
    SetCreated(String, TimeSpec),
    SetModified(String, TimeSpec),
    Touch(String),
    Flush,
}

impl Op {
    pub fn short(&self) -> String {
        format!("{:?}", self)
    }
    pub fn is_tree_op(&self) -> bool {
        matches!(
            self,
            Op::CreateStorage(_)
                | Op::CreateStorageAll(_)
                | Op::CreateStream(_)
                | Op::CreateNewStream(_)
                | Op::RemoveStream(_)
                | Op::RemoveStorage(_)
                | Op::RemoveStorageAll(_)
        )
    }
}

/// Deterministic, position dependent, never-zero content.
pub fn pattern(seed: u64, n: usize) -> Vec<u8> {
    (0..n as u64)
        .map(|i| (1 + ((seed.wrapping_mul(131) + i * 37 + (i / 64) * 11 + (i / 512) * 101 + (i / 4096) * 7) % 255)) as u8)
        .collect()
}

pub fn seed_of(path: &str, n: u64, salt: u64) -> u64 {
    let mut h: u64 = 0xcbf29ce484222325;
    for b in path.bytes() {
        h ^= b as u64;
        h = h.wrapping_mul(0x100000001b3);
    }
    (h ^ n.wrapping_mul(0x9E37_79B9) ^ salt.wrapping_mul(0x85EB_CA6B)) % 1_000_003
}

// ---------------------------------------------------------------------- //
// panic capture

thread_local! {
    static LAST_PANIC: RefCell<Option<String>> = const { RefCell::new(None) };
    static QUIET: RefCell<u32> = const { RefCell::new(0) };
}

pub fn install_panic_hook() {
    let default = std::panic::take_hook();
    std::panic::set_hook(Box::new(move |info| {
        let loc = info
            .location()
            .map(|l| {
                let f = l.file();
                let f = f.rsplit("/src/").next().unwrap_or(f);
                format!("{}:{}", f, l.line())
            })
            .unwrap_or_default();
        let msg = if let Some(s) = info.payload().downcast_ref::<&str>() {
            s.to_string()
        } else if let Some(s) = info.payload().downcast_ref::<String>() {
            s.clone()
        } else {
            "<non-string panic>".to_string()
        };
        let quiet = QUIET.try_with(|q| *q.borrow() > 0).unwrap_or(false);
        let _ = LAST_PANIC.try_with(|p| *p.borrow_mut() = Some(format!("{} @ {}", msg, loc)));
        if !quiet {
            default(info);
        }
    }));
}

/// Runs `f` with panics captured; returns Err(description) on panic.
pub fn guarded<R>(f: impl FnOnce() -> R) -> Result<R, String> {
    QUIET.with(|q| *q.borrow_mut() += 1);
    LAST_PANIC.with(|p| *p.borrow_mut() = None);
    let r = catch_unwind(AssertUnwindSafe(f));
    QUIET.with(|q| *q.borrow_mut() -= 1);
    match r {
        Ok(v) => Ok(v),
        Err(_) => Err(LAST_PANIC.with(|p| p.borrow_mut().take()).unwrap_or_else(|| "panic".into())),
    }
}

/// Holds a value (a dirty Stream handle, typically) that must not run its
/// destructor while a panic unwinds: Stream::drop writes back buffered data
/// and a second panic inside a destructor would abort the whole process.
pub struct NoDropOnPanic<T>(pub Option<T>);

impl<T> NoDropOnPanic<T> {
    pub fn new(v: T) -> Self {
        NoDropOnPanic(Some(v))
    }
}
impl<T> std::ops::Deref for NoDropOnPanic<T> {
    type Target = T;
    fn deref(&self) -> &T {
        self.0.as_ref().unwrap()
    }
}
impl<T> std::ops::DerefMut for NoDropOnPanic<T> {
    fn deref_mut(&mut self) -> &mut T {
        self.0.as_mut().unwrap()
    }
}
impl<T> Drop for NoDropOnPanic<T> {
    fn drop(&mut self) {
        if std::thread::panicking() {
            if let Some(v) = self.0.take() {
                std::mem::forget(v);
            }
        }
    }
}

pub fn ekind(e: &io::Error) -> EKind {
    match e.kind() {
        io::ErrorKind::NotFound => EKind::NotFound,
        io::ErrorKind::AlreadyExists => EKind::AlreadyExists,
        io::ErrorKind::InvalidInput => EKind::InvalidInput,
        io::ErrorKind::InvalidData => EKind::InvalidData,
        _ => EKind::Other,
    }
}

pub fn outcome_of<T>(r: Result<io::Result<T>, String>) -> (Outcome, Option<T>) {
    match r {
        Ok(Ok(v)) => (Outcome::Ok, Some(v)),
        Ok(Err(e)) => (Outcome::Err(ekind(&e), e.to_string()), None),
        Err(p) => (Outcome::Panic(p), None),
    }
}

// ---------------------------------------------------------------------- //

pub fn version_of(v: u16) -> Version {
    if v == 3 {
        Version::V3
    } else {
        Version::V4
    }
}

/// A live CompoundFile over a snapshot-able in-memory file.
pub struct Live {
    pub comp: CompoundFile<MemFile>,
    pub mem: MemFile,
}

impl Live {
    pub fn create(version: u16) -> Result<Live, String> {
        let mem = MemFile::new(Vec::new());
        let m2 = mem.clone();
        match guarded(|| CompoundFile::create_with_version(version_of(version), m2)) {
            Ok(Ok(comp)) => Ok(Live { comp, mem }),
            Ok(Err(e)) => Err(format!("create failed: {}", e)),
            Err(p) => Err(format!("create panicked: {}", p)),
        }
    }
    pub fn open(bytes: Vec<u8>, strict: bool) -> Result<Live, String> {
        Live::open_buf(bytes, strict, None)
    }
    pub fn open_buf(bytes: Vec<u8>, strict: bool, max_buf: Option<usize>) -> Result<Live, String> {
        let mem = MemFile::new(bytes);
        let m2 = mem.clone();
        let r = guarded(|| {
            let mut o = cfb::OpenOptions::new();
            if strict {
                o = o.strict();
            }
            if let Some(m) = max_buf {
                o = o.max_buffer_size(m);
            }
            o.open_with(m2)
        });
        match r {
            Ok(Ok(comp)) => Ok(Live { comp, mem }),
            Ok(Err(e)) => Err(format!("open({}) failed: {}", if strict { "strict" } else { "permissive" }, e)),
            Err(p) => Err(format!("open({}) PANIC: {}", if strict { "strict" } else { "permissive" }, p)),
        }
    }
    pub fn snapshot(&self) -> Vec<u8> {
        self.mem.snapshot()
    }
}

// ---------------------------------------------------------------------- //
// executing an Op on the real object and judging it with the model

pub struct Step {
    pub outcome: Outcome,
    /// model's objection to the outcome, if any
    pub verdict: Result<(), String>,
}

fn pin_times<F: Read + Write + Seek>(comp: &mut CompoundFile<F>, paths: &[String]) -> Result<(), String> {
    let ts = PIN.to_system_time().unwrap();
    for p in paths {
        let r = guarded(|| -> io::Result<()> {
            comp.set_created_time(p, ts)?;
            comp.set_modified_time(p, ts)
        });
        match r {
            Ok(Ok(())) => {}
            Ok(Err(e)) => return Err(format!("pinning times of {} failed: {}", p, e)),
            Err(pn) => return Err(format!("pinning times of {} PANIC: {}", p, pn)),
        }
    }
    Ok(())
}

/// Reads the clock-dependent times of freshly created storages and checks
/// they lie between the two clock readings (C17 clause), then pins them.
fn check_clock_and_pin<F: Read + Write + Seek>(
    comp: &mut CompoundFile<F>,
    created: &[String],
    t0: SystemTime,
    t1: SystemTime,
) -> Result<(), String> {
    for p in created {
        let e = guarded(|| comp.entry(p)).map_err(|x| format!("entry PANIC {}", x))?.map_err(|e| format!("entry({}) after create: {}", p, e))?;
        let c = filetime_of(e.created());
        let m = filetime_of(e.modified());
        let lo = filetime_of(t0);
        let hi = filetime_of(t1);
        if t1 >= t0 && !(lo <= c && c <= hi && c == m) {
            return Err(format!("new storage {} has created={} modified={} outside clock window [{}, {}]", p, c, m, lo, hi));
        }
    }
    pin_times(comp, created)
}

pub fn filetime_of(t: SystemTime) -> u64 {
    match t.duration_since(UNIX_EPOCH) {
        Ok(d) => refmodel::filetime_from_unix(false, d.as_secs(), d.subsec_nanos()),
        Err(e) => {
            let d = e.duration();
            // a time before the epoch is reported exactly (multiples of 100ns)
            refmodel::filetime_from_unix(true, d.as_secs(), d.subsec_nanos())
        }
    }
}

fn write_all_flush<F: Read + Write + Seek>(s: &mut cfb::Stream<F>, data: &[u8]) -> io::Result<()> {
    s.write_all(data)?;
    s.flush()
}

/// Executes `op` on `comp`, lets the model judge the outcome and (if the
/// outcome is acceptable) applies the op to the model.
pub fn exec<F: Read + Write + Seek>(comp: &mut CompoundFile<F>, op: &Op, model: &mut Model) -> Step {
    match op {
        Op::CreateStorage(p) => {
            let t0 = SystemTime::now();
            let (out, _) = outcome_of(guarded(|| comp.create_storage(p)));
            let t1 = SystemTime::now();
            match model.create(p, CreateKind::Storage, &out) {
                Ok(created) => {
                    let verdict = check_clock_and_pin(comp, &created, t0, t1);
                    Step { outcome: out, verdict }
                }
                Err(msg) => Step { outcome: out, verdict: Err(msg) },
            }
        }
        Op::CreateStorageAll(p) => {
            let t0 = SystemTime::now();
            let (out, _) = outcome_of(guarded(|| comp.create_storage_all(p)));
            let t1 = SystemTime::now();
            match model.create_storage_all(p, &out) {
                Ok(created) => {
                    let verdict = check_clock_and_pin(comp, &created, t0, t1);
                    Step { outcome: out, verdict }
                }
                Err(msg) => Step { outcome: out, verdict: Err(msg) },
            }
        }
        Op::CreateStream(p) => {
            let (out, _) = outcome_of(guarded(|| comp.create_stream(p).map(|s| drop(s))));
            let verdict = model.create(p, CreateKind::Stream, &out).map(|_| ());
            Step { outcome: out, verdict }
        }
        Op::CreateNewStream(p) => {
            let (out, _) = outcome_of(guarded(|| comp.create_new_stream(p).map(|s| drop(s))));
            let verdict = model.create(p, CreateKind::NewStream, &out).map(|_| ());
            Step { outcome: out, verdict }
        }
        Op::RemoveStream(p) => {
            let (out, _) = outcome_of(guarded(|| comp.remove_stream(p)));
            let verdict = model.remove_stream(p, &out);
            Step { outcome: out, verdict }
        }
        Op::RemoveStorage(p) => {
            let (out, _) = outcome_of(guarded(|| comp.remove_storage(p)));
            let verdict = model.remove_storage(p, &out);
            Step { outcome: out, verdict }
        }
        Op::RemoveStorageAll(p) => {
            let (out, _) = outcome_of(guarded(|| comp.remove_storage_all(p)));
            let verdict = model.remove_storage_all(p, &out);
            Step { outcome: out, verdict }
        }
        Op::Rewrite(p, n) => {
            let data = pattern(seed_of(p, *n as u64, 1), *n);
            let mut created_ok = false;
            let (out, _) = outcome_of(guarded(|| -> io::Result<()> {
                let mut s = NoDropOnPanic::new(comp.create_stream(p)?);
                created_ok = true;
                write_all_flush(&mut s, &data)
            }));
            // judge the creation part with the model
            let create_out = if created_ok { Outcome::Ok } else { out.clone() };
            let mut verdict = model.create(p, CreateKind::Stream, &create_out).map(|_| ());
            if verdict.is_ok() && created_ok {
                if out.is_ok() {
                    model.stream_mut(p).unwrap().data = data;
                } else {
                    verdict = Err(format!("write/flush after create_stream failed: {}", out.short()));
                }
            }
            Step { outcome: out, verdict }
        }
        Op::Patch(p, off, n) => {
            let data = pattern(seed_of(p, *n as u64 + off * 7919, 2), *n);
            stream_op(comp, model, p, |s| {
                s.seek(SeekFrom::Start(*off))?;
                write_all_flush(s, &data)
            }, |d| {
                if *off > d.len() as u64 {
                    return Err(EKind::InvalidInput);
                }
                let end = *off as usize + data.len();
                if end > d.len() {
                    d.resize(end, 0);
                }
                d[*off as usize..end].copy_from_slice(&data);
                Ok(())
            })
        }
        Op::PatchRead(p, off, n, r) => {
            let data = pattern(seed_of(p, *n as u64 + off * 7919, 4), *n);
            stream_op(comp, model, p, |s| {
                s.seek(SeekFrom::Start(*off))?;
                s.write_all(&data)?;
                let mut buf = vec![0u8; *r];
                let mut got = 0usize;
                while got < buf.len() {
                    let k = s.read(&mut buf[got..])?;
                    if k == 0 {
                        break;
                    }
                    got += k;
                }
                s.flush()
            }, |d| {
                if *off > d.len() as u64 {
                    return Err(EKind::InvalidInput);
                }
                let end = *off as usize + data.len();
                if end > d.len() {
                    d.resize(end, 0);
                }
                d[*off as usize..end].copy_from_slice(&data);
                Ok(())
            })
        }
        Op::Append(p, n) => {
            let data = pattern(seed_of(p, *n as u64, 3), *n);
            stream_op(comp, model, p, |s| {
                s.seek(SeekFrom::End(0))?;
                write_all_flush(s, &data)
            }, |d| {
                d.extend_from_slice(&data);
                Ok(())
            })
        }
        Op::SetLen(p, n) => stream_op(comp, model, p, |s| {
            s.set_len(*n)?;
            s.flush()
        }, |d| {
            d.resize(*n as usize, 0);
            Ok(())
        }),
        Op::SetStateBits(p, bits) => {
            let (out, _) = outcome_of(guarded(|| comp.set_state_bits(p, *bits)));
            let verdict = model.set_state_bits(p, *bits, &out);
            Step { outcome: out, verdict }
        }
        Op::SetClsid(p, c) => {
            let (out, _) = outcome_of(guarded(|| comp.set_storage_clsid(p, uuid::Uuid::from_bytes(*c))));
            let verdict = model.set_clsid(p, *c, &out);
            Step { outcome: out, verdict }
        }
        Op::SetCreated(p, t) => {
            let st = t.to_system_time().expect("time alphabet must be representable");
            let (out, _) = outcome_of(guarded(|| comp.set_created_time(p, st)));
            let verdict = model.set_time(p, true, t.filetime(), &out);
            Step { outcome: out, verdict }
        }
        Op::SetModified(p, t) => {
            let st = t.to_system_time().expect("time alphabet must be representable");
            let (out, _) = outcome_of(guarded(|| comp.set_modified_time(p, st)));
            let verdict = model.set_time(p, false, t.filetime(), &out);
            Step { outcome: out, verdict }
        }
        Op::Touch(p) => {
            // touch = set_modified_time(now); pinned right after
            let (out, _) = outcome_of(guarded(|| comp.touch(p)));
            let mut verdict = model.set_time(p, false, pin_filetime(), &out);
            if verdict.is_ok() && out.is_ok() {
                let ts = PIN.to_system_time().unwrap();
                if let (o @ Outcome::Err(..), _) | (o @ Outcome::Panic(_), _) = outcome_of(guarded(|| comp.set_modified_time(p, ts))) {
                    verdict = Err(format!("re-pinning after touch failed: {}", o.short()));
                }
            }
            Step { outcome: out, verdict }
        }
        Op::Flush => {
            let (out, _) = outcome_of(guarded(|| comp.flush()));
            let verdict = match &out {
                Outcome::Ok => Ok(()),
                o => Err(format!("flush: expected Ok, got {}", o.short())),
            };
            Step { outcome: out, verdict }
        }
    }
}

fn stream_op<F: Read + Write + Seek>(
    comp: &mut CompoundFile<F>,
    model: &mut Model,
    p: &str,
    real: impl FnOnce(&mut cfb::Stream<F>) -> io::Result<()>,
    twin: impl FnOnce(&mut Vec<u8>) -> Result<(), EKind>,
) -> Step {
    let (out, _) = outcome_of(guarded(|| -> io::Result<()> {
        let mut s = NoDropOnPanic::new(comp.open_stream(p)?);
        real(&mut s)
    }));
    let expected: Result<(), Vec<EKind>> = match model.lookup(p) {
        Err(()) => Err(vec![EKind::InvalidInput]),
        Ok(None) => Err(vec![EKind::NotFound]),
        Ok(Some((n, _))) if n.kind != Kind::Stream => Err(vec![EKind::InvalidInput]),
        Ok(Some(_)) => {
            let node = model.stream_mut(p).unwrap();
            let mut copy = node.data.clone();
            match twin(&mut copy) {
                Ok(()) => {
                    if out.is_ok() {
                        node.data = copy;
                    }
                    Ok(())
                }
                Err(k) => Err(vec![k]),
            }
        }
    };
    let verdict = match (&expected, &out) {
        (Ok(()), Outcome::Ok) => Ok(()),
        (Err(ks), Outcome::Err(k, _)) if ks.contains(k) => Ok(()),
        _ => Err(format!("stream op on {}: expected {:?}, got {}", p, expected, out.short())),
    };
    Step { outcome: out, verdict }
}

// ---------------------------------------------------------------------- //
// S5 observation

pub fn entry_obs(e: &cfb::Entry) -> EntryObs {
    EntryObs {
        path: e.path().to_string_lossy().into_owned(),
        name: e.name().to_string(),
        kind: if e.is_root() {
            Kind::Root
        } else if e.is_storage() {
            Kind::Storage
        } else {
            Kind::Stream
        },
        clsid: *e.clsid().as_bytes(),
        state_bits: e.state_bits(),
        created: filetime_of(e.created()),
        modified: filetime_of(e.modified()),
        // the root entry's length field is the size of the mini stream
        // container, an allocation detail the abstract model does not define
        len: if e.is_root() { 0 } else { e.len() },
    }
}

pub const WALK_LIMIT: usize = 20_000;

/// The complete logical content as seen through the public API.
pub fn dump_real<F: Read + Seek>(comp: &mut CompoundFile<F>) -> Result<Dump, String> {
    let r = guarded(|| -> Result<Dump, String> {
        // bounded: damaged sibling links can make an iteration cyclic
        let entries: Vec<EntryObs> = comp.walk().take(WALK_LIMIT + 1).map(|e| entry_obs(&e)).collect();
        if entries.len() > WALK_LIMIT {
            return Err(format!("walk() yields more than {} entries (iteration does not terminate)", WALK_LIMIT));
        }
        let mut contents = Vec::new();
        for e in &entries {
            if e.kind == Kind::Stream {
                let mut s = comp.open_stream(&e.path).map_err(|x| format!("open_stream({}) failed: {}", e.path, x))?;
                let mut data = Vec::new();
                s.read_to_end(&mut data).map_err(|x| format!("read_to_end({}) failed: {}", e.path, x))?;
                if s.len() != data.len() as u64 {
                    return Err(format!("{}: Stream::len()={} but read_to_end gave {}", e.path, s.len(), data.len()));
                }
                contents.push((e.path.clone(), data));
            }
        }
        Ok(Dump { entries, contents })
    });
    match r {
        Ok(x) => x,
        Err(p) => Err(format!("PANIC while dumping: {}", p)),
    }
}

fn paths_eq_ci(a: &str, b: &str) -> bool {
    let (na, nb) = (names::normalise(a), names::normalise(b));
    match (na, nb) {
        (Ok(x), Ok(y)) => x.len() == y.len() && x.iter().zip(y.iter()).all(|(p, q)| names::eq(p, q)),
        _ => false,
    }
}

fn entry_matches(got: &EntryObs, want: &EntryObs, exact_path: bool) -> bool {
    let mut g = got.clone();
    let mut w = want.clone();
    if !exact_path {
        if !paths_eq_ci(&g.path, &w.path) {
            return false;
        }
        g.path.clear();
        w.path.clear();
    }
    g == w
}

/// Probes every lookup-style method on `path` and compares with the model.
/// `exact` = the path is in stored spelling (so reported paths must match
/// byte for byte); otherwise paths are compared case-insensitively.
pub fn probe<F: Read + Seek>(comp: &mut CompoundFile<F>, model: &Model, path: &str, exact: bool) -> Result<(), String> {
    let r = guarded(|| -> Result<(), String> {
        let look = model.lookup(path);
        let (node, names_) = match &look {
            Err(()) => (None, None),
            Ok(None) => (None, None),
            Ok(Some((n, nm))) => (Some(*n), Some(nm.clone())),
        };
        let exp_exists = node.is_some();
        let exp_stream = node.map(|n| n.kind == Kind::Stream).unwrap_or(false);
        let exp_storage = node.map(|n| n.kind != Kind::Stream).unwrap_or(false);
        if comp.exists(path) != exp_exists {
            return Err(format!("exists({:?}) = {}, model says {}", path, !exp_exists, exp_exists));
        }
        if comp.is_stream(path) != exp_stream {
            return Err(format!("is_stream({:?}) = {}, model says {}", path, !exp_stream, exp_stream));
        }
        if comp.is_storage(path) != exp_storage {
            return Err(format!("is_storage({:?}) = {}, model says {}", path, !exp_storage, exp_storage));
        }
        let miss_kind = if look.is_err() { EKind::InvalidInput } else { EKind::NotFound };
        // entry
        match (comp.entry(path), node) {
            (Ok(e), Some(_)) => {
                let want = model.root.entry(names_.as_ref().unwrap()).unwrap();
                if !entry_matches(&entry_obs(&e), &want, exact) {
                    return Err(format!("entry({:?}) = {:?}, model says {:?}", path, entry_obs(&e), want));
                }
            }
            (Err(e), None) if ekind(&e) == miss_kind => {}
            (Ok(_), None) => return Err(format!("entry({:?}) Ok, model says missing", path)),
            (Err(e), _) => return Err(format!("entry({:?}) Err({:?} {}), model says {:?}", path, e.kind(), e, node.map(|n| n.kind))),
        }
        // open_stream
        match (comp.open_stream(path), node) {
            (Ok(mut s), Some(n)) if n.kind == Kind::Stream => {
                let mut d = Vec::new();
                s.read_to_end(&mut d).map_err(|e| format!("read {:?}: {}", path, e))?;
                if d != n.data {
                    return Err(format!("open_stream({:?}) content differs from model (len {} vs {})", path, d.len(), n.data.len()));
                }
            }
            (Err(e), Some(n)) if n.kind != Kind::Stream && ekind(&e) == EKind::InvalidInput => {}
            (Err(e), None) if ekind(&e) == miss_kind => {}
            (Ok(_), _) => return Err(format!("open_stream({:?}) Ok, model says {:?}", path, node.map(|n| n.kind))),
            (Err(e), _) => return Err(format!("open_stream({:?}) Err({:?} {}), model says {:?}", path, e.kind(), e, node.map(|n| n.kind))),
        }
        // read_storage
        match (comp.read_storage(path), node) {
            (Ok(it), Some(n)) if n.kind != Kind::Stream => {
                let got: Vec<EntryObs> = it.take(WALK_LIMIT).map(|e| entry_obs(&e)).collect();
                let want = model.root.list(names_.as_ref().unwrap()).unwrap();
                if got.len() != want.len() || !got.iter().zip(want.iter()).all(|(g, w)| entry_matches(g, w, exact)) {
                    return Err(format!("read_storage({:?}) = {:?}, model says {:?}", path, got.iter().map(|e| &e.path).collect::<Vec<_>>(), want.iter().map(|e| &e.path).collect::<Vec<_>>()));
                }
            }
            (Err(e), Some(n)) if n.kind == Kind::Stream && ekind(&e) == EKind::InvalidInput => {}
            (Err(e), None) if ekind(&e) == miss_kind => {}
            (Ok(_), _) => return Err(format!("read_storage({:?}) Ok, model says {:?}", path, node.map(|n| n.kind))),
            (Err(e), _) => return Err(format!("read_storage({:?}) Err({:?} {}), model says {:?}", path, e.kind(), e, node.map(|n| n.kind))),
        }
        // walk_storage
        match (comp.walk_storage(path), node) {
            (Ok(it), Some(_)) => {
                let got: Vec<EntryObs> = it.take(WALK_LIMIT).map(|e| entry_obs(&e)).collect();
                let want = model.root.walk_from(names_.as_ref().unwrap()).unwrap();
                if got.len() != want.len() || !got.iter().zip(want.iter()).all(|(g, w)| entry_matches(g, w, false)) {
                    return Err(format!("walk_storage({:?}) = {:?}, model says {:?}", path, got.iter().map(|e| &e.path).collect::<Vec<_>>(), want.iter().map(|e| &e.path).collect::<Vec<_>>()));
                }
            }
            (Err(e), Some(n)) if n.kind == Kind::Stream && ekind(&e) == EKind::InvalidInput => {}
            (Err(e), None) if ekind(&e) == miss_kind => {}
            (Ok(_), None) => return Err(format!("walk_storage({:?}) Ok, model says missing", path)),
            (Err(e), _) => return Err(format!("walk_storage({:?}) Err({:?} {}), model says {:?}", path, e.kind(), e, node.map(|n| n.kind))),
        }
        Ok(())
    });
    match r {
        Ok(x) => x,
        Err(p) => Err(format!("PANIC while probing {:?}: {}", path, p)),
    }
}

/// Root-level consistency of the non-path observers.
pub fn probe_root<F: Read + Seek>(comp: &mut CompoundFile<F>, model: &Model) -> Result<(), String> {
    let r = guarded(|| -> Result<(), String> {
        let re = entry_obs(&comp.root_entry());
        let want = model.root.entry(&[]).unwrap();
        if re != want {
            return Err(format!("root_entry() = {:?}, model says {:?}", re, want));
        }
        let got: Vec<EntryObs> = comp.read_root_storage().take(WALK_LIMIT).map(|e| entry_obs(&e)).collect();
        let want = model.root.list(&[]).unwrap();
        if got != want {
            return Err(format!("read_root_storage() = {:?}, model says {:?}", got.iter().map(|e| &e.path).collect::<Vec<_>>(), want.iter().map(|e| &e.path).collect::<Vec<_>>()));
        }
        Ok(())
    });
    match r {
        Ok(x) => x,
        Err(p) => Err(format!("PANIC in root probes: {}", p)),
    }
}

pub fn node_dump(n: &Node) -> Dump {
    n.dump()
}
