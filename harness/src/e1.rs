//! E1: explicit-state exploration of operation histories on the real code.
//!  * `bfs`: breadth-first search over byte images (state key = image), every
//!    transition executed on a fresh real object opened from the image, with
//!    optional live bursts (several ops on one live object) from every state.
//!  * `enumerate`: path-based enumeration of all op sequences up to a depth on
//!    one live object (optionally with one reopen at each position).
//!  * `cycles`: C15 net-zero cycles.
use crate::ops::Op;
use crate::refmodel::Model;
use crate::report::{key128, Ctx};
use crate::runner::{run_history, to_violations, History, Oracles, Runner};
use rayon::prelude::*;
use serde_json::json;
use std::collections::HashSet;
use std::sync::Mutex;

pub struct BfsCfg {
    pub version: u16,
    pub seed: String,
    pub ops: Vec<Op>,
    pub oracles: Oracles,
    pub extra_paths: Vec<String>,
    pub max_depth: Option<usize>,
    /// additionally run every op sequence of this length (>= 2) on one live
    /// object from every state whose depth is <= burst_max_state_depth
    pub burst_len: usize,
    pub max_states: u64,
}

struct Node {
    image: Vec<u8>,
    model: Model,
    hist: Vec<u16>,
}

pub struct BfsStats {
    pub states: u64,
    pub transitions: u64,
    pub depth: usize,
    pub closed: bool,
    pub burst_steps: u64,
}

fn hist_of(cfg: &BfsCfg, idx: &[u16], live_tail: usize) -> History {
    let ops: Vec<Op> = idx.iter().map(|&i| cfg.ops[i as usize].clone()).collect();
    let n = ops.len();
    let reopen_after = (0..n).map(|i| i + live_tail < n).collect();
    History { version: cfg.version, seed: cfg.seed.clone(), ops, reopen_after }
}

pub fn bfs(ctx: &Ctx, cfg: &BfsCfg) -> BfsStats {
    let root = match crate::seeds::build(&cfg.seed, cfg.version) {
        Ok(r) => r,
        Err(e) => {
            ctx.report(crate::report::Violation { class: "machinery".into(), sig: "seed".into(), msg: e, replay: json!(null) });
            return BfsStats { states: 0, transitions: 0, depth: 0, closed: false, burst_steps: 0 };
        }
    };
    let image = root.snapshot();
    let mut seen: HashSet<(u64, u64)> = HashSet::new();
    seen.insert(key128(cfg.version, &image, &[]));
    let mut frontier = vec![Node { image, model: root.model.clone(), hist: vec![] }];
    drop(root);
    let mut stats = BfsStats { states: 1, transitions: 0, depth: 0, closed: false, burst_steps: 0 };
    let mut outcomes_seen: HashSet<String> = HashSet::new();
    while !frontier.is_empty() {
        if let Some(md) = cfg.max_depth {
            if stats.depth >= md {
                break;
            }
        }
        if stats.states > cfg.max_states {
            ctx.not_exhaustive(&format!("state cap {} reached at depth {}", cfg.max_states, stats.depth));
            break;
        }
        // expand the whole level in parallel; merge in canonical order
        let results: Vec<(Vec<(Node, (u64, u64))>, u64, u64, Vec<String>)> = frontier
            .par_iter()
            .map(|node| {
                let mut next = Vec::new();
                let mut trans = 0u64;
                let mut burst_steps = 0u64;
                let mut kinds = Vec::new();
                for (oi, op) in cfg.ops.iter().enumerate() {
                    let mut r = match Runner::from_image(cfg.version, node.image.clone(), node.model.clone()) {
                        Ok(r) => r,
                        Err(e) => {
                            let h = hist_of(cfg, &node.hist, 0);
                            ctx.report_all(to_violations(vec![("reopen".into(), format!("state does not reopen: {}", e))], &h));
                            break;
                        }
                    };
                    let rep = r.step(op, &cfg.oracles, &cfg.extra_paths);
                    trans += 1;
                    let mut hist = node.hist.clone();
                    hist.push(oi as u16);
                    if !rep.problems.is_empty() {
                        ctx.report_all(to_violations(rep.problems, &hist_of(cfg, &hist, 0)));
                    }
                    if kinds.len() < 64 {
                        kinds.push(format!("{}:{}", crate::runner::op_kind(op), rep.outcome.short().split(':').next().unwrap_or("")));
                    }
                    if r.desync || r.poisoned {
                        ctx.add("desync_dropped", 1);
                        continue;
                    }
                    // live bursts: continue on the same live object
                    if cfg.burst_len >= 2 {
                        burst_steps += bursts_from(ctx, cfg, node, oi, cfg.burst_len);
                    }
                    let image = r.snapshot();
                    let key = key128(cfg.version, &image, &[]);
                    // states already known from earlier levels are dropped here (the set is
                    // only extended between levels), which keeps the level's memory small
                    if !seen.contains(&key) {
                        next.push((Node { image, model: r.model.clone(), hist }, key));
                    }
                }
                (next, trans, burst_steps, kinds)
            })
            .collect();
        let mut new_frontier = Vec::new();
        for (next, trans, bs, kinds) in results {
            stats.transitions += trans;
            stats.burst_steps += bs;
            for k in kinds {
                outcomes_seen.insert(k);
            }
            for (node, key) in next {
                if seen.insert(key) {
                    new_frontier.push(node);
                }
            }
        }
        stats.states += new_frontier.len() as u64;
        stats.depth += 1;
        if stats.depth <= 3 {
            if let Some(n) = new_frontier.first() {
                ctx.sample(json!({"bfs_state_at_depth": stats.depth, "history": hist_of(cfg, &n.hist, 0)}));
            }
        }
        frontier = new_frontier;
    }
    stats.closed = frontier.is_empty();
    if !stats.closed {
        ctx.not_exhaustive(&format!("BFS on seed {} v{} stopped at depth {} with {} frontier states", cfg.seed, cfg.version, stats.depth, frontier.len()));
    }
    ctx.add("distinct_outcome_kinds", outcomes_seen.len() as u64);
    stats
}

/// All op sequences of length `len` that start with op `first` on one live
/// object opened from `node`; full oracle on steps 2..len.
fn bursts_from(ctx: &Ctx, cfg: &BfsCfg, node: &Node, first: usize, len: usize) -> u64 {
    let mut steps = 0u64;
    let n = cfg.ops.len();
    let mut idx = vec![0usize; len - 1];
    loop {
        let mut r = match Runner::from_image(cfg.version, node.image.clone(), node.model.clone()) {
            Ok(r) => r,
            Err(_) => return steps,
        };
        let rep = r.step(&cfg.ops[first], &Oracles::LIGHT, &[]);
        let mut hist = node.hist.clone();
        hist.push(first as u16);
        let mut ok = rep.problems.is_empty() && !r.desync && !r.poisoned;
        let mut live_tail = 1;
        if ok {
            for &oi in idx.iter() {
                let rep = r.step(&cfg.ops[oi], &cfg.oracles, &cfg.extra_paths);
                steps += 1;
                hist.push(oi as u16);
                live_tail += 1;
                if !rep.problems.is_empty() {
                    ctx.report_all(to_violations(rep.problems, &hist_of(cfg, &hist, live_tail)));
                }
                if r.desync || r.poisoned {
                    ok = false;
                    break;
                }
            }
        }
        let _ = ok;
        // next index vector
        let mut k = idx.len();
        loop {
            if k == 0 {
                return steps;
            }
            k -= 1;
            idx[k] += 1;
            if idx[k] < n {
                break;
            }
            idx[k] = 0;
        }
    }
}

// ---------------------------------------------------------------------- //

pub struct EnumCfg {
    pub version: u16,
    pub seed: String,
    pub ops: Vec<Op>,
    pub depth: usize,
    pub oracles: Oracles,
    pub extra_paths: Vec<String>,
    /// also run every sequence with exactly one reopen after each position
    pub one_reopen: bool,
    /// extend refused calls too (C10 differential)
    pub extend_refused: bool,
}

pub struct EnumStats {
    pub sequences: u64,
    pub checked_steps: u64,
    pub replayed_steps: u64,
    pub distinct_images: u64,
}

pub fn enumerate(ctx: &Ctx, cfg: &EnumCfg) -> EnumStats {
    let images: Mutex<HashSet<(u64, u64)>> = Mutex::new(HashSet::new());
    let seqs = std::sync::atomic::AtomicU64::new(0);
    let checked = std::sync::atomic::AtomicU64::new(0);
    let replayed = std::sync::atomic::AtomicU64::new(0);
    fn rec(
        ctx: &Ctx,
        cfg: &EnumCfg,
        prefix: &mut Vec<Op>,
        images: &Mutex<HashSet<(u64, u64)>>,
        seqs: &std::sync::atomic::AtomicU64,
        checked: &std::sync::atomic::AtomicU64,
        replayed: &std::sync::atomic::AtomicU64,
    ) {
        use std::sync::atomic::Ordering::Relaxed;
        let n = prefix.len();
        let mut h = History { version: cfg.version, seed: cfg.seed.clone(), ops: prefix.clone(), reopen_after: vec![false; n] };
        let res = run_history(&h, n - 1, &cfg.oracles, &cfg.extra_paths);
        seqs.fetch_add(1, Relaxed);
        checked.fetch_add(1, Relaxed);
        replayed.fetch_add(res.steps.saturating_sub(1), Relaxed);
        let extendable = res.final_image.is_some() && (cfg.extend_refused || res.outcomes.last().map(|o| o.is_ok()).unwrap_or(false));
        if let Some(img) = &res.final_image {
            images.lock().unwrap().insert(key128(cfg.version, img, &[]));
        }
        if n <= 2 && res.violations.is_empty() {
            ctx.sample(json!({"sequence": h.clone()}));
        }
        ctx.report_all(res.violations);
        if cfg.one_reopen && n >= 2 && res.final_image.is_some() {
            for k in 0..n - 1 {
                h.reopen_after = vec![false; n];
                h.reopen_after[k] = true;
                let r2 = run_history(&h, n - 1, &cfg.oracles, &cfg.extra_paths);
                checked.fetch_add(1, Relaxed);
                replayed.fetch_add(r2.steps.saturating_sub(1), Relaxed);
                // continuing on the reopened file must behave the same as live
                if let (Some(a), Some(b)) = (&res.final_model, &r2.final_model) {
                    if a != b {
                        ctx.report_all(to_violations(vec![("reopen".into(), "continuation on reopened file diverges from live continuation (model)".into())], &h));
                    }
                }
                if r2.outcomes != res.outcomes && r2.violations.is_empty() {
                    ctx.report_all(to_violations(
                        vec![("reopen".into(), format!("outcomes differ between live and reopened continuation: {:?} vs {:?}", res.outcomes.last().map(|o| o.short()), r2.outcomes.last().map(|o| o.short())))],
                        &h,
                    ));
                }
                ctx.report_all(r2.violations);
            }
        }
        if n < cfg.depth && extendable {
            if n <= 1 {
                cfg.ops.par_iter().for_each(|op| {
                    let mut p = prefix.clone();
                    p.push(op.clone());
                    rec(ctx, cfg, &mut p, images, seqs, checked, replayed);
                });
            } else {
                for op in cfg.ops.iter() {
                    prefix.push(op.clone());
                    rec(ctx, cfg, prefix, images, seqs, checked, replayed);
                    prefix.pop();
                }
            }
        }
    }
    cfg.ops.par_iter().for_each(|op| {
        let mut p = vec![op.clone()];
        rec(ctx, cfg, &mut p, &images, &seqs, &checked, &replayed);
    });
    use std::sync::atomic::Ordering::Relaxed;
    let distinct_images = images.lock().unwrap().len() as u64;
    EnumStats { sequences: seqs.load(Relaxed), checked_steps: checked.load(Relaxed), replayed_steps: replayed.load(Relaxed), distinct_images }
}

// ---------------------------------------------------------------------- //
// C15: net-zero cycles

#[derive(Clone, Debug, serde::Serialize, serde::Deserialize)]
pub struct CycleCase {
    pub version: u16,
    pub seed: String,
    pub prefix: Vec<Op>,
    pub cycle: Vec<Op>,
    pub reopen_between: bool,
    pub reps: usize,
}

pub enum CycleVerdict {
    /// the cycle is not net-zero / not applicable from this prefix
    Skipped,
    /// lengths after each repetition
    Lens(Vec<usize>),
    Problem(String, String),
}

pub fn run_cycle(c: &CycleCase) -> CycleVerdict {
    let mut r = match crate::seeds::build(&c.seed, c.version) {
        Ok(r) => r,
        Err(e) => return CycleVerdict::Problem("machinery".into(), e),
    };
    for op in &c.prefix {
        let rep = r.step(op, &Oracles::LIGHT, &[]);
        if !rep.problems.is_empty() || r.desync {
            return CycleVerdict::Skipped; // the prefix itself is another check's business
        }
    }
    let m0 = r.model.clone();
    let mut lens = Vec::new();
    for _ in 0..c.reps {
        for op in &c.cycle {
            let rep = r.step(op, &Oracles::LIGHT, &[]);
            if let Some((class, msg)) = rep.problems.into_iter().next() {
                if class == "panic" {
                    return CycleVerdict::Problem(class, msg);
                }
                return CycleVerdict::Skipped;
            }
            if !rep.outcome.is_ok() {
                return CycleVerdict::Skipped;
            }
        }
        if r.model != m0 {
            return CycleVerdict::Skipped;
        }
        lens.push(r.live.mem.len());
        if c.reopen_between {
            if let Err(e) = r.reopen() {
                return CycleVerdict::Problem("reopen".into(), e);
            }
        }
    }
    CycleVerdict::Lens(lens)
}

pub struct CycleStats {
    pub cases: u64,
    pub applicable: u64,
    pub steps: u64,
    pub distinct_prefix_states: u64,
}

pub fn cycles(ctx: &Ctx, version: u16, seeds: &[String], prefix_ops: &[Op], prefix_depth: usize, cycle_list: &[Vec<Op>]) -> CycleStats {
    // all prefixes: sequences of length 0..=depth (refused ones pruned by run)
    let mut prefixes: Vec<Vec<Op>> = vec![vec![]];
    let mut level: Vec<Vec<Op>> = vec![vec![]];
    for _ in 0..prefix_depth {
        let mut next = Vec::new();
        for p in &level {
            for op in prefix_ops {
                let mut q = p.clone();
                q.push(op.clone());
                next.push(q);
            }
        }
        prefixes.extend(next.iter().cloned());
        level = next;
    }
    let mut work: Vec<CycleCase> = Vec::new();
    for seed in seeds {
        for p in &prefixes {
            for cy in cycle_list {
                for reopen_between in [false, true] {
                    work.push(CycleCase { version, seed: seed.clone(), prefix: p.clone(), cycle: cy.clone(), reopen_between, reps: 3 });
                }
            }
        }
    }
    let applicable = std::sync::atomic::AtomicU64::new(0);
    let steps = std::sync::atomic::AtomicU64::new(0);
    let states: Mutex<HashSet<(u64, u64)>> = Mutex::new(HashSet::new());
    work.par_iter().for_each(|c| {
        use std::sync::atomic::Ordering::Relaxed;
        match run_cycle(c) {
            CycleVerdict::Skipped => {}
            CycleVerdict::Problem(class, msg) => {
                ctx.report(crate::report::Violation { sig: format!("{}:{}", class, crate::report::sig_norm(&msg)), class, msg, replay: json!({"kind": "cycle", "cycle": c}) });
            }
            CycleVerdict::Lens(lens) => {
                applicable.fetch_add(1, Relaxed);
                steps.fetch_add((c.prefix.len() + c.cycle.len() * c.reps) as u64, Relaxed);
                states.lock().unwrap().insert(key128(version, format!("{}|{:?}", c.seed, c.prefix).as_bytes(), &[]));
                if applicable.load(Relaxed) % 997 == 1 {
                    ctx.sample(json!({"cycle_case": c, "file_len_after_each_repetition": lens}));
                }
                if lens.windows(2).any(|w| w[0] != w[1]) {
                    let kind: Vec<String> = c.cycle.iter().map(crate::runner::op_kind).collect();
                    let sizes: Vec<String> = c
                        .cycle
                        .iter()
                        .filter_map(|o| match o {
                            Op::Rewrite(_, n) => Some(if *n == 0 { "empty" } else if *n < 4096 { "mini" } else { "regular" }.to_string()),
                            _ => None,
                        })
                        .collect();
                    ctx.report(crate::report::Violation {
                        class: "growth".into(),
                        sig: format!("growth:{}:{}:reopen={}", kind.join("+"), sizes.join("+"), c.reopen_between),
                        msg: format!("file length after repetitions 1..{} of a net-zero cycle: {:?} (cycle {:?})", c.reps, lens, c.cycle),
                        replay: json!({"kind": "cycle", "cycle": c}),
                    });
                }
            }
        }
    });
    use std::sync::atomic::Ordering::Relaxed;
    let distinct_prefix_states = states.lock().unwrap().len() as u64;
    CycleStats { cases: work.len() as u64, applicable: applicable.load(Relaxed), steps: steps.load(Relaxed), distinct_prefix_states }
}
