//! E4: fault and chunking enumeration on the generic backend (C12, C13, C18).
//! A workload is run fault-free to learn the sequence of underlying calls,
//! then re-run with a fault at every call index k (singly, then in pairs),
//! retrying each failed API call; every run goes to completion.
use crate::backend::{CallKind, Fault, FaultCtl, FaultFile, MemFile};
use crate::ops::{self, guarded};
use crate::refmodel::Kind;
use crate::report::{sig_norm, Ctx, Violation};
use cfb::CompoundFile;
use rayon::prelude::*;
use serde::{Deserialize, Serialize};
use serde_json::json;
use std::collections::BTreeMap;
use std::io::{self, BufRead, Read, Seek, SeekFrom, Write};

type FF = FaultFile<MemFile>;

#[derive(Clone, Debug, PartialEq, Serialize, Deserialize)]
pub enum WStep {
    /// open the compound file through the fault-injecting backend
    Open { strict: bool },
    /// create a new compound file through the fault-injecting backend
    Create,
    Walk,
    ReadStorage(String),
    Entry(String),
    Exists(String),
    OpenStream(usize, String),
    CreateStream(usize, String),
    Read(usize, usize),
    FillConsume(usize, usize),
    SeekStart(usize, u64),
    SeekCur(usize, i64),
    SeekEnd(usize, i64),
    Write(usize, usize),
    Flush(usize),
    SetLen(usize, u64),
    DropHandle(usize),
    CreateStorage(String),
    RemoveStream(String),
    RemoveStorage(String),
    SetStateBits(String, u32),
    CompFlush,
}

#[derive(Clone, Debug, Serialize, Deserialize)]
pub struct FaultCase {
    /// also inject ErrorKind::Interrupted (std's read_exact / write_all retry it internally) at every position
    #[serde(default)]
    pub with_interrupted: bool,
    /// generated workloads: a step sequence that is refused without any fault (e.g. a relative
    /// seek out of range) is simply not a workload
    #[serde(default)]
    pub generated: bool,
    /// a caller that does not retry: after an API call fails the workload simply goes on with its next
    /// step (the default is to retry the failed call up to three times first)
    #[serde(default)]
    pub no_retry: bool,
    pub workload: String,
    pub version: u16,
    pub max_buf: usize,
    pub steps: Vec<WStep>,
    /// call index (after arming) -> fault
    pub plan: Vec<(u64, Fault)>,
    /// which underlying call kinds the plan was drawn from (documentation)
    pub kinds: Vec<CallKind>,
    pub read_only: bool,
}

pub struct RunLog {
    /// (kind, file offset) of every delivered fault and the final image (to name the site)
    pub sites: Vec<(CallKind, u64)>,
    pub final_image: Vec<u8>,
    /// one entry per attempt: (step index, result summary)
    pub results: Vec<(usize, Result<String, String>)>,
    pub problems: Vec<(String, String)>,
    pub calls: u64,
    pub log: Vec<(CallKind, u32)>,
    pub delivered: usize,
}

struct Handle {
    s: ops::NoDropOnPanic<cfb::Stream<FF>>,
    path: String,
}

struct Env {
    mem: MemFile,
    ctl: FaultCtl,
    comp: Option<CompoundFile<FF>>,
    handles: Vec<Option<Handle>>,
    /// model content per stream path (None = unknown after a failed resize)
    content: BTreeMap<String, Option<Vec<u8>>>,
    /// content a stream had when set_len failed on it: if the retried set_len returns Ok (and no
    /// write was accepted in between) the stream must hold this content resized
    pending_resize: BTreeMap<String, (u64, Vec<u8>)>,
    strict: bool,
    max_buf: usize,
    version: u16,
    /// a fault struck during a structural call (create/remove/setter/open): the
    /// on-disk state after that is outside what C13 promises
    structural_fault: bool,
}

fn pause(ctl: &FaultCtl) -> bool {
    let mut s = ctl.0.lock().unwrap();
    let was = s.armed;
    s.armed = false;
    was
}
fn resume(ctl: &FaultCtl, was: bool) {
    ctl.0.lock().unwrap().armed = was;
}

/// Base image for the read-only workloads, with its true contents.
pub fn readonly_base(version: u16) -> Result<(Vec<u8>, BTreeMap<String, Vec<u8>>), String> {
    let mut live = ops::Live::create(version)?;
    let mut truth = BTreeMap::new();
    let r = guarded(|| -> io::Result<()> {
        live.comp.create_storage("/d")?;
        let ts = ops::PIN.to_system_time().unwrap();
        live.comp.set_created_time("/d", ts)?;
        live.comp.set_modified_time("/d", ts)?;
        for (p, n) in [("/mini", 3000usize), ("/big", 10000), ("/d/x", 70), ("/e", 0)] {
            let data = ops::pattern(ops::seed_of(p, n as u64, 9), n);
            let mut s = live.comp.create_stream(p)?;
            s.write_all(&data)?;
            s.flush()?;
            truth.insert(p.to_string(), data);
        }
        Ok(())
    });
    match r {
        Ok(Ok(())) => Ok((live.snapshot(), truth)),
        Ok(Err(e)) => Err(format!("readonly base: {}", e)),
        Err(p) => Err(format!("readonly base panicked: {}", p)),
    }
}

/// A read-only base whose FAT spans two sectors in V3 (more than 128 sectors).  All directory
/// entries are created first (the directory chain lies at the start of the file), then the contents
/// are written last-to-first: eight streams of mixed sizes, two of them of exactly nine sectors, so
/// that the FAT holds many chains and many end-of-chain cells on both sides of the sector boundary.
const LARGE_STREAMS: [(&str, usize); 8] = [("/alpha", 30 * 1024), ("/beta", 4608), ("/gamma", 40 * 1024), ("/delta", 6656), ("/epsilon", 40 * 1024), ("/zeta", 4608), ("/eta", 20 * 1024), ("/small", 700)];

pub fn readonly_base_large(version: u16) -> Result<(Vec<u8>, BTreeMap<String, Vec<u8>>), String> {
    let mut live = ops::Live::create(version)?;
    let mut truth = BTreeMap::new();
    let r = guarded(|| -> io::Result<()> {
        for (p, _) in LARGE_STREAMS {
            live.comp.create_stream(p)?;
        }
        for (p, n) in LARGE_STREAMS.iter().rev() {
            let data = ops::pattern(ops::seed_of(p, *n as u64, 11), *n);
            let mut s = live.comp.open_stream(p)?;
            s.write_all(&data)?;
            s.flush()?;
            truth.insert(p.to_string(), data);
        }
        Ok(())
    });
    match r {
        Ok(Ok(())) => Ok((live.snapshot(), truth)),
        Ok(Err(e)) => Err(format!("readonly base (large): {}", e)),
        Err(p) => Err(format!("readonly base (large) panicked: {}", p)),
    }
}

/// Workloads on the large base: faults while the tables are loaded, then every stream is read.
pub fn readonly_workloads_large() -> Vec<(String, usize, Vec<WStep>)> {
    let mut v = Vec::new();
    for strict in [false, true] {
        let mut s = vec![WStep::Open { strict }, WStep::Walk];
        for (h, (p, n)) in LARGE_STREAMS.iter().enumerate() {
            s.push(WStep::OpenStream(h, p.to_string()));
            s.push(WStep::Read(h, 65536));
            s.push(WStep::SeekStart(h, (*n as u64) / 2));
            s.push(WStep::Read(h, 3000));
        }
        v.push((format!("two FAT sectors: open({}) + every stream read", if strict { "strict" } else { "permissive" }), 1 << 20, s));
    }
    v
}

fn entries_summary(it: impl Iterator<Item = cfb::Entry>) -> String {
    let v: Vec<String> = it
        .take(ops::WALK_LIMIT)
        .map(|e| {
            let o = ops::entry_obs(&e);
            format!("{}:{}:{}:{}", o.path, if o.kind == Kind::Stream { "f" } else { "d" }, o.len, o.state_bits)
        })
        .collect();
    v.join(",")
}

impl Env {
    fn comp(&mut self) -> Result<&mut CompoundFile<FF>, String> {
        self.comp.as_mut().ok_or_else(|| "no compound file open".to_string())
    }

    /// Executes one attempt of one step.  Ok(summary) / Err(error text).
    /// Oracle problems are pushed to `problems`.
    fn attempt(&mut self, idx: usize, step: &WStep, truth: Option<&BTreeMap<String, Vec<u8>>>, problems: &mut Vec<(String, String)>) -> Result<String, String> {
        let es = |e: io::Error| format!("{:?}: {}", e.kind(), e);
        match step {
            WStep::Open { strict } => {
                self.strict = *strict;
                self.handles.clear();
                self.comp = None;
                let ff = FaultFile::new(self.mem.clone(), self.ctl.clone());
                let mut o = cfb::OpenOptions::new().max_buffer_size(self.max_buf);
                if *strict {
                    o = o.strict();
                }
                let c = o.open_with(ff).map_err(es)?;
                self.comp = Some(c);
                Ok("opened".into())
            }
            WStep::Create => {
                self.handles.clear();
                self.comp = None;
                // a fresh, empty file for every attempt
                self.mem = MemFile::new(Vec::new());
                let ff = FaultFile::new(self.mem.clone(), self.ctl.clone());
                let c = if self.version == 3 {
                    CompoundFile::create_with_version(cfb::Version::V3, ff).map_err(es)?
                } else {
                    cfb::OpenOptions::new().max_buffer_size(self.max_buf).create_with(ff).map_err(es)?
                };
                self.comp = Some(c);
                Ok("created".into())
            }
            WStep::Walk => Ok(entries_summary(self.comp()?.walk())),
            WStep::ReadStorage(p) => Ok(entries_summary(self.comp()?.read_storage(p).map_err(es)?)),
            WStep::Entry(p) => {
                let e = self.comp()?.entry(p).map_err(es)?;
                Ok(format!("{:?}", ops::entry_obs(&e)))
            }
            WStep::Exists(p) => {
                let c = self.comp()?;
                Ok(format!("{}{}{}", c.exists(p), c.is_stream(p), c.is_storage(p)))
            }
            WStep::OpenStream(h, p) => {
                let s = self.comp()?.open_stream(p).map_err(es)?;
                let len = s.len();
                self.set_handle(*h, Handle { s: ops::NoDropOnPanic::new(s), path: p.clone() });
                if let Some(t) = truth {
                    if let Some(d) = t.get(p) {
                        if len != d.len() as u64 {
                            problems.push(("wrongdata".into(), format!("step {} open_stream({}) len {} but true length {}", idx, p, len, d.len())));
                        }
                    }
                }
                Ok(format!("len={}", len))
            }
            WStep::CreateStream(h, p) => {
                // drop a previous handle in this slot first (paused: Drop is excluded from the property)
                let was = pause(&self.ctl);
                if *h < self.handles.len() {
                    self.handles[*h] = None;
                }
                resume(&self.ctl, was);
                let r = self.comp()?.create_stream(p);
                match r {
                    Ok(s) => {
                        self.set_handle(*h, Handle { s: ops::NoDropOnPanic::new(s), path: p.clone() });
                        self.content.insert(p.clone(), Some(Vec::new()));
                        self.pending_resize.remove(p);
                        Ok("created".into())
                    }
                    Err(e) => {
                        // existence and content of the stream are now unknown
                        self.content.insert(p.clone(), None);
                        self.pending_resize.remove(p);
                        Err(es(e))
                    }
                }
            }
            WStep::Read(h, n) => {
                let (pos, path) = self.pos_of(*h)?;
                let hd = self.handles[*h].as_mut().unwrap();
                let mut buf = vec![0u8; *n];
                let k = match hd.s.read(&mut buf) {
                    Ok(k) => k,
                    Err(e) => {
                        // io::Read: "if an error is returned then it must be guaranteed that no bytes
                        // were read" - a caller that retries must get the bytes it would have got
                        let was = pause(&self.ctl);
                        let after = hd.s.stream_position();
                        resume(&self.ctl, was);
                        if !matches!(after, Ok(a) if a == pos) {
                            problems.push(("wrongdata".into(), format!("step {} read({}) failed but moved the position from {} to {:?}: a retry skips bytes", idx, n, pos, after)));
                        }
                        return Err(es(e));
                    }
                };
                let was = pause(&self.ctl);
                let after = hd.s.stream_position();
                resume(&self.ctl, was);
                let true_content: Option<Vec<u8>> = match truth {
                    Some(t) => t.get(&path).cloned(),
                    None => self.content.get(&path).cloned().flatten(),
                };
                if let Some(d) = true_content {
                    let avail = d.len().saturating_sub(pos as usize);
                    if k > avail || (k == 0 && *n > 0 && avail > 0) {
                        problems.push(("wrongdata".into(), format!("step {} read({}) at {} returned {} with {} available", idx, n, pos, k, avail)));
                    } else if buf[..k] != d[pos as usize..pos as usize + k] {
                        problems.push(("wrongdata".into(), format!("step {} read({}) returned bytes that differ from the stream's true content at reported position {}", idx, n, pos)));
                    }
                    match after {
                        Ok(a) if a == pos + k as u64 => {}
                        other => problems.push(("wrongdata".into(), format!("step {} position after reading {} bytes at {} is {:?}", idx, k, pos, other))),
                    }
                }
                Ok(format!("read {}@{}", k, pos))
            }
            WStep::FillConsume(h, kc) => {
                let (pos, path) = self.pos_of(*h)?;
                let hd = self.handles[*h].as_mut().unwrap();
                let true_content: Option<Vec<u8>> = match truth {
                    Some(t) => t.get(&path).cloned(),
                    None => self.content.get(&path).cloned().flatten(),
                };
                let slen = {
                    let sl = match hd.s.fill_buf() {
                        Ok(sl) => sl,
                        Err(e) => {
                            let was = pause(&self.ctl);
                            let after = hd.s.stream_position();
                            resume(&self.ctl, was);
                            if !matches!(after, Ok(a) if a == pos) {
                                problems.push(("wrongdata".into(), format!("step {} fill_buf failed but moved the position from {} to {:?}", idx, pos, after)));
                            }
                            return Err(es(e));
                        }
                    };
                    if let Some(d) = &true_content {
                        let avail = d.len().saturating_sub(pos as usize);
                        if sl.len() > avail || (sl.is_empty() && avail > 0) {
                            problems.push(("wrongdata".into(), format!("step {} fill_buf at {} returned {} bytes with {} available", idx, pos, sl.len(), avail)));
                        } else if sl != &d[pos as usize..pos as usize + sl.len()] {
                            problems.push(("wrongdata".into(), format!("step {} fill_buf returned bytes that differ from the stream's true content at reported position {}", idx, pos)));
                        }
                    }
                    sl.len()
                };
                let k = (*kc).min(slen);
                hd.s.consume(k);
                Ok(format!("fill {} consume {}@{}", slen, k, pos))
            }
            WStep::SeekStart(h, t) => {
                let hd = self.handle(*h)?;
                let p = hd.s.seek(SeekFrom::Start(*t)).map_err(es)?;
                Ok(format!("pos={}", p))
            }
            WStep::SeekCur(h, d) => {
                let hd = self.handle(*h)?;
                let p = hd.s.seek(SeekFrom::Current(*d)).map_err(es)?;
                Ok(format!("pos={}", p))
            }
            WStep::SeekEnd(h, d) => {
                let hd = self.handle(*h)?;
                let p = hd.s.seek(SeekFrom::End(*d)).map_err(es)?;
                Ok(format!("pos={}", p))
            }
            WStep::Write(h, n) => {
                // write_all semantics, but every accepted count is applied to the model as it
                // is reported (a single write() may legitimately be short)
                let (pos0, path) = self.pos_of(*h)?;
                let data = ops::pattern(ops::seed_of(&path, *n as u64, idx as u64), *n);
                let mut done = 0usize;
                while done < data.len() {
                    let (pos, _) = self.pos_of(*h)?;
                    let hd = self.handles[*h].as_mut().unwrap();
                    let k = hd.s.write(&data[done..]).map_err(es)?;
                    if k == 0 {
                        return Err("write returned 0".into());
                    }
                    if !matches!(self.content.get(&path), Some(Some(_))) {
                        // a write accepted on a stream of unknown content: a later resize proves nothing
                        self.pending_resize.remove(&path);
                    }
                    if let Some(Some(m)) = self.content.get_mut(&path) {
                        let end = pos as usize + k;
                        if end > m.len() {
                            m.resize(end, 0);
                        }
                        m[pos as usize..end].copy_from_slice(&data[done..done + k]);
                    }
                    done += k;
                }
                Ok(format!("wrote {}@{}", done, pos0))
            }
            WStep::Flush(h) => {
                let path = self.handle(*h)?.path.clone();
                self.handle(*h)?.s.flush().map_err(es)?;
                // Ok flush => the underlying writer has been flushed after its last write
                if self.ctl.unflushed() {
                    problems.push(("lost".into(), format!("step {} flush returned Ok but the underlying writer was not flushed after its last write", idx)));
                }
                // Ok flush => every accepted byte is read back by a fresh handle
                let was = pause(&self.ctl);
                let want = self.content.get(&path).cloned().flatten();
                if let Some(want) = want {
                    let r = (|| -> io::Result<Vec<u8>> {
                        let mut f = self.comp.as_mut().unwrap().open_stream(&path)?;
                        let mut got = Vec::new();
                        f.read_to_end(&mut got)?;
                        Ok(got)
                    })();
                    match r {
                        Ok(got) if got == want => {}
                        Ok(got) => {
                            let d = got.iter().zip(want.iter()).position(|(a, b)| a != b);
                            problems.push(("lost".into(), format!("step {} flush returned Ok but a fresh handle on {} reads {} bytes, accepted writes amount to {} (first diff {:?})", idx, path, got.len(), want.len(), d)));
                        }
                        Err(e) => problems.push(("lost".into(), format!("step {} flush returned Ok but a fresh handle on {} cannot read: {}", idx, path, e))),
                    }
                    // ... and they are in the compound file: the bytes alone reopen to them
                    // (judged only when every fault so far struck during a write-back, i.e. during a
                    // write / flush / set_len / seek on a handle; after a failed structural call the
                    // property only promises "no panic, later calls may fail")
                    let image = if self.structural_fault { Vec::new() } else { self.mem.snapshot() };
                    if !self.structural_fault {
                    let reread = (|| -> Result<Vec<u8>, String> {
                        let mut l = ops::Live::open(image, false)?;
                        let mut f = l.comp.open_stream(&path).map_err(|e| format!("open_stream: {}", e))?;
                        let mut got = Vec::new();
                        f.read_to_end(&mut got).map_err(|e| format!("read: {}", e))?;
                        Ok(got)
                    })();
                    match reread {
                        Ok(got) if got == want => {}
                        Ok(got) => problems.push(("lost".into(), format!("step {} flush returned Ok but the reopened file holds {} bytes in {}, accepted writes amount to {}", idx, got.len(), path, want.len()))),
                        Err(e) => problems.push(("lost".into(), format!("step {} flush returned Ok but the reopened bytes do not yield {}: {}", idx, path, e))),
                    }
                    }
                }
                resume(&self.ctl, was);
                Ok("flushed".into())
            }
            WStep::SetLen(h, n) => {
                let path = self.handle(*h)?.path.clone();
                match self.handle(*h)?.s.set_len(*n) {
                    Ok(()) => {
                        if let Some(Some(m)) = self.content.get_mut(&path) {
                            m.resize(*n as usize, 0);
                        } else if let Some((failed_n, mut old)) = self.pending_resize.remove(&path) {
                            // the retry of the failed set_len (same size) succeeded: nothing accepted earlier
                            // may be lost.  A set_len to another size proves nothing (it may be a no-op).
                            if failed_n == *n {
                                old.resize(*n as usize, 0);
                                self.content.insert(path.clone(), Some(old));
                            }
                        }
                        self.pending_resize.remove(&path);
                        Ok("resized".into())
                    }
                    Err(e) => {
                        if let Some(Some(old)) = self.content.get(&path).cloned() {
                            self.pending_resize.entry(path.clone()).or_insert((*n, old));
                        }
                        self.content.insert(path, None);
                        Err(es(e))
                    }
                }
            }
            WStep::DropHandle(h) => {
                let was = pause(&self.ctl);
                if *h < self.handles.len() {
                    self.handles[*h] = None;
                }
                resume(&self.ctl, was);
                Ok("dropped".into())
            }
            WStep::CreateStorage(p) => {
                self.comp()?.create_storage(p).map_err(es)?;
                Ok("ok".into())
            }
            WStep::RemoveStream(p) => {
                let r = self.comp()?.remove_stream(p).map_err(es);
                self.content.remove(p);
                self.pending_resize.remove(p);
                r?;
                Ok("ok".into())
            }
            WStep::RemoveStorage(p) => {
                self.comp()?.remove_storage(p).map_err(es)?;
                Ok("ok".into())
            }
            WStep::SetStateBits(p, b) => {
                self.comp()?.set_state_bits(p, *b).map_err(es)?;
                Ok("ok".into())
            }
            WStep::CompFlush => {
                self.comp()?.flush().map_err(es)?;
                Ok("ok".into())
            }
        }
    }

    fn set_handle(&mut self, h: usize, hd: Handle) {
        while self.handles.len() <= h {
            self.handles.push(None);
        }
        let was = pause(&self.ctl);
        self.handles[h] = Some(hd);
        resume(&self.ctl, was);
    }
    fn handle(&mut self, h: usize) -> Result<&mut Handle, String> {
        self.handles.get_mut(h).and_then(|x| x.as_mut()).ok_or_else(|| format!("handle {} not open", h))
    }
    /// Position the handle reports (no underlying I/O; faults paused anyway).
    fn pos_of(&mut self, h: usize) -> Result<(u64, String), String> {
        let was = pause(&self.ctl);
        let r = match self.handle(h) {
            Ok(hd) => hd.s.stream_position().map(|p| (p, hd.path.clone())).map_err(|e| format!("stream_position: {}", e)),
            Err(e) => Err(e),
        };
        resume(&self.ctl, was);
        r
    }
}

/// Runs a case.  `base`: image to open (read-only workloads / Open steps).
pub fn run_case(c: &FaultCase, base: Option<&(Vec<u8>, BTreeMap<String, Vec<u8>>)>, reference: Option<&[Result<String, String>]>) -> RunLog {
    let ctl = FaultCtl::new();
    let mem = MemFile::new(base.map(|b| b.0.clone()).unwrap_or_default());
    let mut env = Env { mem, ctl: ctl.clone(), comp: None, handles: Vec::new(), content: BTreeMap::new(), pending_resize: BTreeMap::new(), strict: false, max_buf: c.max_buf, version: c.version, structural_fault: false };
    let truth = if c.read_only { base.map(|b| &b.1) } else { None };
    let plan: BTreeMap<u64, Fault> = c.plan.iter().cloned().collect();
    ctl.arm(plan, true);
    let mut log = RunLog { sites: Vec::new(), final_image: Vec::new(), results: Vec::new(), problems: Vec::new(), calls: 0, log: Vec::new(), delivered: 0 };
    let mut attempt_id: u32 = 0;
    let run = guarded(|| {
        for (idx, step) in c.steps.iter().enumerate() {
            let mut tries = 0;
            loop {
                attempt_id += 1;
                ctl.set_tag(attempt_id);
                let mut problems = Vec::new();
                let res = env.attempt(idx, step, truth, &mut problems);
                ctl.set_tag(0);
                log.problems.extend(problems);
                // (C13) a fault delivered during this attempt => the attempt must be Err
                let hits: Vec<(u64, CallKind, u32)> = ctl.delivered().into_iter().filter(|d| d.2 == attempt_id).collect();
                let hard = hits.iter().any(|d| matches!(c.plan.iter().find(|p| p.0 == d.0).map(|p| p.1), Some(Fault::Fail)));
                if hard && !matches!(step, WStep::Write(..) | WStep::Flush(_) | WStep::SetLen(..) | WStep::SeekStart(..) | WStep::SeekCur(..) | WStep::SeekEnd(..) | WStep::Read(..) | WStep::FillConsume(..)) {
                    env.structural_fault = true;
                }
                if hard && res.is_ok() && !matches!(step, WStep::DropHandle(_)) {
                    log.problems.push((
                        "swallowed".into(),
                        format!("step {} {:?}: an injected {:?} failure (call #{}) was swallowed: the API call returned Ok({})", idx, step, hits[0].1, hits[0].0, res.as_ref().unwrap()),
                    ));
                }
                // (C12) a call that succeeds returns what it returns without faults
                if c.read_only {
                    if let (Ok(got), Some(refs)) = (&res, reference) {
                        let comparable = matches!(step, WStep::Open { .. } | WStep::Walk | WStep::ReadStorage(_) | WStep::Entry(_) | WStep::Exists(_) | WStep::OpenStream(..) | WStep::SeekStart(..) | WStep::SeekEnd(..));
                        if comparable {
                            if let Some(Ok(want)) = refs.get(idx) {
                                if got != want {
                                    log.problems.push(("wrongdata".into(), format!("step {} {:?} returned {:?} under faults but {:?} without", idx, step, got, want)));
                                }
                            }
                        }
                    }
                }
                let failed = res.is_err();
                log.results.push((idx, res));
                if failed && tries < 3 && !c.no_retry {
                    tries += 1;
                    continue;
                }
                break;
            }
        }
        // handles are flushed (not relied on Drop): drop them with faults paused
        let was = pause(&ctl);
        env.handles.clear();
        resume(&ctl, was);
    });
    if let Err(p) = run {
        log.problems.push(("panic".into(), format!("panicked under fault plan: {}", p)));
    }
    log.calls = ctl.count();
    log.log = ctl.log();
    log.delivered = ctl.delivered().len();
    log.sites = ctl.delivered().iter().map(|d| d.1).zip(ctl.delivered_pos()).collect();
    ctl.disarm();
    log.final_image = env.mem.snapshot();
    log
}

/// Names the place in the file a fault struck: region + field, not a number.
pub fn site_name(image: &[u8], kind: CallKind, pos: u64) -> String {
    let k = format!("{:?}", kind).to_lowercase();
    if pos == u64::MAX {
        return format!("{}@end", k);
    }
    if pos < 512 {
        return format!("{}@header+{}", k, pos);
    }
    match crate::spec::parse(image) {
        Err(_) => format!("{}@unparsed", k),
        Ok(p) => {
            let sl = p.sector_len as u64;
            let sec = (pos / sl).saturating_sub(1) as u32;
            let within = pos % sl;
            if p.fat_sectors.contains(&sec) {
                format!("{}@FAT", k)
            } else if p.difat_sectors.contains(&sec) {
                format!("{}@DIFAT", k)
            } else if p.dir_sectors.contains(&sec) {
                let entry_kind = {
                    let i = p.dir_sectors.iter().position(|&s| s == sec).unwrap() as u64 * (sl / 128) + within / 128;
                    if i == 0 { "root" } else { "entry" }
                };
                format!("{}@directory:{}+{}", k, entry_kind, within % 128)
            } else if p.minifat_sectors.contains(&sec) {
                format!("{}@MiniFAT", k)
            } else if p.ministream_sectors.contains(&sec) {
                format!("{}@ministream", k)
            } else {
                format!("{}@data", k)
            }
        }
    }
}

pub struct FaultStats {
    pub runs: u64,
    pub calls: u64,
    pub positions: u64,
    pub faults_delivered: u64,
}

/// Enumerates single faults and (optionally) all pairs.
#[derive(Clone, Copy, PartialEq, Eq, Debug)]
pub enum Pairs {
    None,
    /// both faults after the first step (Open / Create) has completed
    AfterFirstStep,
    /// as AfterFirstStep, and the second fault within the next `n` underlying
    /// calls of the first (the retry of the failed call and what follows it)
    Near(u64),
    All,
}

pub fn explore(ctx: &Ctx, base_case: &FaultCase, base: Option<&(Vec<u8>, BTreeMap<String, Vec<u8>>)>, kinds: &[CallKind], pairs: Pairs) -> FaultStats {
    explore_from(ctx, base_case, base, kinds, pairs, 0)
}

/// As `explore`, with single faults only at underlying calls made by steps with index >= `from_step`
/// (the steps before it build a starting state whose own faults are covered elsewhere).
pub fn explore_from(ctx: &Ctx, base_case: &FaultCase, base: Option<&(Vec<u8>, BTreeMap<String, Vec<u8>>)>, kinds: &[CallKind], pairs: Pairs, from_step: usize) -> FaultStats {
    let mut stats = FaultStats { runs: 0, calls: 0, positions: 0, faults_delivered: 0 };
    let reference = run_case(base_case, base, None);
    stats.runs += 1;
    stats.calls += reference.calls;
    if !reference.problems.is_empty() {
        // an oracle fails without any fault injected: a violation in its own right
        report_problems(ctx, base_case, &reference);
        return stats;
    }
    if base_case.generated && reference.results.iter().any(|r| r.1.is_err()) {
        return stats;
    }
    if reference.results.iter().any(|r| r.1.is_err()) {
        let first_err = reference.results.iter().find(|r| r.1.is_err());
        ctx.report(Violation {
            class: "machinery".into(),
            sig: format!("reference:{}", base_case.workload),
            msg: format!("fault-free reference run of workload {} is not clean: {:?} {:?}", base_case.workload, reference.problems.first(), first_err),
            replay: json!({"kind": "fault", "fault": base_case}),
        });
        return stats;
    }
    let refs: Vec<Result<String, String>> = {
        let mut v: Vec<Result<String, String>> = Vec::new();
        for (idx, r) in &reference.results {
            if *idx == v.len() {
                v.push(r.clone());
            }
        }
        v
    };
    let singles: Vec<u64> = reference.log.iter().enumerate().filter(|(_, (k, tag))| kinds.contains(k) && *tag as usize > from_step).map(|(i, _)| i as u64).collect();
    // index of the first underlying call made after the first step
    let first_step_end: u64 = reference.log.iter().position(|(_, tag)| *tag > 1).unwrap_or(reference.log.len()) as u64;
    stats.positions = singles.len() as u64;
    if std::env::var("CFBMC_DEBUG_E4").is_ok() {
        let mut per_tag: BTreeMap<u32, (u64, u64)> = BTreeMap::new();
        for (i, (_, tag)) in reference.log.iter().enumerate() {
            let e = per_tag.entry(*tag).or_insert((i as u64, i as u64));
            e.1 = i as u64;
        }
        eprintln!("workload {} v{}: calls per attempt tag (first..last): {:?}", base_case.workload, base_case.version, per_tag);
    }
    ctx.sample(json!({"workload": base_case.workload, "version": base_case.version, "underlying_calls": reference.calls, "fault_positions": singles.len(), "example_plan": [[singles.get(singles.len() / 2), "Fail"]]}));
    let results: Vec<(u64, u64, u64)> = singles
        .par_iter()
        .map(|&k1| {
            let mut runs = 0u64;
            let mut calls = 0u64;
            let mut delivered = 0u64;
            if base_case.with_interrupted {
                let mut ci = base_case.clone();
                ci.plan = vec![(k1, Fault::Interrupted)];
                crate::watch::enter(json!({"kind": "fault", "fault": ci}));
                let ri = run_case(&ci, base, Some(&refs));
                crate::watch::leave();
                runs += 1;
                calls += ri.calls;
                delivered += ri.delivered as u64;
                report_problems(ctx, &ci, &ri);
            }
            let mut c = base_case.clone();
            c.plan = vec![(k1, Fault::Fail)];
            crate::watch::enter(json!({"kind": "fault", "fault": c}));
            let r1 = run_case(&c, base, Some(&refs));
            crate::watch::leave();
            runs += 1;
            calls += r1.calls;
            delivered += r1.delivered as u64;
            report_problems(ctx, &c, &r1);
            let window = match pairs {
                Pairs::Near(n) => n,
                _ => u64::MAX,
            };
            if pairs == Pairs::All || (matches!(pairs, Pairs::AfterFirstStep | Pairs::Near(_)) && k1 >= first_step_end) {
                for (k2, (kind, _)) in r1.log.iter().enumerate() {
                    let k2 = k2 as u64;
                    if k2 <= k1 || !kinds.contains(kind) || k2 - k1 > window {
                        continue;
                    }
                    let mut c2 = base_case.clone();
                    c2.plan = vec![(k1, Fault::Fail), (k2, Fault::Fail)];
                    crate::watch::enter(json!({"kind": "fault", "fault": c2}));
                    let r2 = run_case(&c2, base, Some(&refs));
                    crate::watch::leave();
                    runs += 1;
                    calls += r2.calls;
                    delivered += r2.delivered as u64;
                    report_problems(ctx, &c2, &r2);
                }
            }
            (runs, calls, delivered)
        })
        .collect();
    for (r, c, d) in results {
        stats.runs += r;
        stats.calls += c;
        stats.faults_delivered += d;
    }
    stats
}

fn report_problems(ctx: &Ctx, c: &FaultCase, r: &RunLog) {
    for (class, msg) in &r.problems {
        let core = msg.splitn(2, ": ").nth(1).unwrap_or(msg);
        // identity of the defect: class + which API step kind + normalised text
        let stepkind = msg.split_whitespace().nth(2).unwrap_or("").split('(').next().unwrap_or("").to_string();
        let sig = if class == "panic" {
            format!("panic:{}", sig_norm(core))
        } else if class == "lost" {
            // identity of a durability defect: which kind of loss, and where the fault(s) struck
            let sites: Vec<String> = r.sites.iter().map(|(k, p)| site_name(&r.final_image, *k, *p)).collect();
            let what = if msg.contains("reopened") { "reopen" } else { "live" };
            format!("lost:{}:fault-at:{}", what, sites.join("+"))
        } else {
            format!("{}:{}:{}", class, stepkind, sig_norm(core).chars().take(60).collect::<String>())
        };
        ctx.report(Violation { class: class.clone(), sig, msg: format!("[{} v{} plan {:?}] {}", c.workload, c.version, c.plan, msg), replay: json!({"kind": "fault", "fault": c}) });
    }
}

// ---------------------------------------------------------------------- //
// workloads

/// Read-only workloads for a caller that does not retry: after a failed read the handle is moved back to
/// exactly where an earlier successful read stopped (the end of a buffer window) and read again.
pub fn readonly_workloads_no_retry() -> Vec<(String, usize, Vec<WStep>)> {
    let mut v = Vec::new();
    for (name, path, len) in [("mini3000", "/mini", 3000u64), ("big10000", "/big", 10000u64)] {
        for win in [1024u64, 1500] {
            let mut s = vec![WStep::Open { strict: false }, WStep::OpenStream(0, path.into())];
            let mut edge = win; // where the first window ends
            s.push(WStep::Read(0, 1));
            for away in [edge + 276, len - 300, 10, edge + 2000] {
                if away >= len {
                    continue;
                }
                s.push(WStep::SeekStart(0, away));
                s.push(WStep::Read(0, 1));
                s.push(WStep::SeekStart(0, edge));
                s.push(WStep::Read(0, 700));
                edge = (edge + win).min(len);
                if edge >= len {
                    break;
                }
            }
            s.push(WStep::SeekStart(0, 0));
            s.push(WStep::Read(0, 700));
            // a second handle on the other stream in between
            s.push(WStep::OpenStream(1, if path == "/mini" { "/big".into() } else { "/mini".into() }));
            s.push(WStep::Read(1, 600));
            s.push(WStep::Read(0, 700));
            v.push((format!("{} buf{}: read, seek away and fail, return to the window's end", name, win), win as usize, s));
        }
    }
    v
}

pub fn readonly_workloads() -> Vec<(String, usize, Vec<WStep>)> {
    let mut v = Vec::new();
    for strict in [false, true] {
        let mut s = vec![WStep::Open { strict }, WStep::Walk, WStep::ReadStorage("/d".into()), WStep::Entry("/d/x".into()), WStep::Exists("/mini".into())];
        s.push(WStep::OpenStream(0, "/d/x".into()));
        s.push(WStep::Read(0, 100));
        s.push(WStep::Read(0, 100));
        v.push((format!("open({})+lookups", if strict { "strict" } else { "permissive" }), 1 << 20, s));
    }
    for (name, path, len) in [("mini3000", "/mini", 3000u64), ("big10000", "/big", 10000u64)] {
        // buffer 1024: refills happen
        let mut s = vec![WStep::Open { strict: false }, WStep::OpenStream(0, path.into())];
        for _ in 0..3 {
            s.push(WStep::Read(0, 700));
        }
        s.push(WStep::FillConsume(0, 100));
        s.push(WStep::FillConsume(0, 1 << 20));
        s.push(WStep::Read(0, 700));
        s.push(WStep::SeekStart(0, 10));
        s.push(WStep::Read(0, 50));
        s.push(WStep::SeekStart(0, len - 500));
        s.push(WStep::Read(0, 700));
        s.push(WStep::Read(0, 700));
        s.push(WStep::SeekCur(0, -1500));
        s.push(WStep::Read(0, 1024));
        s.push(WStep::FillConsume(0, 3));
        s.push(WStep::SeekEnd(0, -1));
        s.push(WStep::Read(0, 5));
        s.push(WStep::SeekStart(0, 1024));
        s.push(WStep::Read(0, 1));
        s.push(WStep::OpenStream(1, "/d/x".into()));
        s.push(WStep::Read(1, 70));
        s.push(WStep::Read(0, 2000));
        v.push((format!("buffered reads {} buf1024", name), 1024, s.clone()));
        v.push((format!("buffered reads {} buf1MiB", name), 1 << 20, s));
    }
    v
}

/// Generated read-only workloads: open the file and one stream, then EVERY sequence of `depth`
/// steps over a read / fill_buf / seek alphabet (returns the prefix length with each workload).
pub fn generated_readonly_workloads(depth: usize) -> Vec<(String, usize, Vec<WStep>, usize)> {
    let mut out = Vec::new();
    for (sname, path, len) in [("mini3000", "/mini", 3000u64), ("big10000", "/big", 10000u64)] {
        let alpha: Vec<WStep> = vec![
            WStep::Read(0, 1),
            WStep::Read(0, 700),
            WStep::Read(0, 2500),
            WStep::FillConsume(0, 100),
            WStep::FillConsume(0, 1 << 20),
            WStep::SeekStart(0, 0),
            WStep::SeekStart(0, 1024),
            WStep::SeekStart(0, 1300),
            WStep::SeekStart(0, len - 500),
            WStep::SeekCur(0, -600),
            WStep::SeekCur(0, 900),
            WStep::SeekEnd(0, -1),
        ];
        let mut seqs: Vec<Vec<usize>> = vec![vec![]];
        for _ in 0..depth {
            let mut next = Vec::new();
            for q in &seqs {
                for i in 0..alpha.len() {
                    let mut t = q.clone();
                    t.push(i);
                    next.push(t);
                }
            }
            seqs = next;
        }
        for max_buf in [1024usize, 1 << 20] {
            for q in &seqs {
                let mut steps = vec![WStep::Open { strict: false }, WStep::OpenStream(0, path.into())];
                steps.extend(q.iter().map(|&i| alpha[i].clone()));
                // what the handle yields afterwards
                steps.push(WStep::Read(0, 700));
                steps.push(WStep::Read(0, 700));
                out.push((format!("gen-ro:{}:buf{}:{}", sname, max_buf, q.iter().map(|i| i.to_string()).collect::<Vec<_>>().join(".")), max_buf, steps, 2));
            }
        }
    }
    out
}

pub fn mutating_workloads() -> Vec<(String, usize, Vec<WStep>)> {
    let mut v = Vec::new();
    v.push((
        "small then migrate".to_string(),
        1 << 20,
        vec![
            WStep::Create,
            WStep::CreateStream(0, "/a".into()),
            WStep::Write(0, 300),
            WStep::Flush(0),
            WStep::Write(0, 5000),
            WStep::Flush(0),
            WStep::SeekStart(0, 100),
            WStep::Write(0, 50),
            WStep::Flush(0),
            WStep::DropHandle(0),
            WStep::CompFlush,
        ],
    ));
    v.push((
        "large, overwrite, shrink to mini, grow back".to_string(),
        1 << 20,
        vec![
            WStep::Create,
            WStep::CreateStream(0, "/b".into()),
            WStep::Write(0, 5000),
            WStep::Flush(0),
            WStep::SeekStart(0, 0),
            WStep::Write(0, 100),
            WStep::Flush(0),
            WStep::SetLen(0, 200),
            WStep::Flush(0),
            WStep::SetLen(0, 6000),
            WStep::Flush(0),
            WStep::SeekEnd(0, 0),
            WStep::Write(0, 10),
            WStep::Flush(0),
            WStep::DropHandle(0),
        ],
    ));
    v.push((
        "structure: storage, stream, remove, setters".to_string(),
        1 << 20,
        vec![
            WStep::Create,
            WStep::CreateStorage("/d".into()),
            WStep::CreateStream(0, "/d/x".into()),
            WStep::Write(0, 64),
            WStep::Flush(0),
            WStep::DropHandle(0),
            WStep::CreateStream(1, "/y".into()),
            WStep::Write(1, 4096),
            WStep::Flush(1),
            WStep::DropHandle(1),
            WStep::SetStateBits("/d".into(), 5),
            WStep::RemoveStream("/d/x".into()),
            WStep::RemoveStorage("/d".into()),
            WStep::RemoveStream("/y".into()),
            WStep::CompFlush,
        ],
    ));
    v.push((
        "buffer overflow write-back (buf 1024)".to_string(),
        1024,
        vec![
            WStep::Create,
            WStep::CreateStream(0, "/c".into()),
            WStep::Write(0, 700),
            WStep::Write(0, 700),
            WStep::Write(0, 700),
            WStep::Write(0, 700),
            WStep::Flush(0),
            WStep::SeekStart(0, 10),
            WStep::Write(0, 2000),
            WStep::Read(0, 100),
            WStep::Flush(0),
            WStep::CreateStream(1, "/c2".into()),
            WStep::Write(1, 100),
            WStep::Flush(1),
            WStep::Write(0, 5),
            WStep::Flush(0),
            WStep::DropHandle(0),
            WStep::DropHandle(1),
        ],
    ));
    // the file grows across the capacity of its first FAT sector (V3: 128 sectors) inside one flush,
    // then other streams allocate and the flush is repeated
    v.push((
        "FAT sector added during a flush, others allocate, flush repeated".to_string(),
        1 << 20,
        vec![
            WStep::Create,
            WStep::CreateStream(0, "/big".into()),
            WStep::Write(0, 62_000),
            WStep::Flush(0),
            WStep::Write(0, 3000),
            WStep::Flush(0),
            WStep::CreateStream(1, "/b".into()),
            WStep::Write(1, 5000),
            WStep::Flush(1),
            WStep::Flush(0),
            WStep::Write(0, 600),
            WStep::Flush(0),
            WStep::Flush(1),
            WStep::DropHandle(0),
            WStep::DropHandle(1),
            WStep::CompFlush,
        ],
    ));
    // a mini stream migrates to a regular chain by an append through a fresh handle; the flush is
    // repeated after another small stream has been written and flushed
    v.push((
        "migration by append, other small stream written, flush repeated".to_string(),
        1 << 20,
        vec![
            WStep::Create,
            WStep::CreateStream(0, "/a".into()),
            WStep::Write(0, 3000),
            WStep::Flush(0),
            WStep::DropHandle(0),
            WStep::OpenStream(0, "/a".into()),
            WStep::SeekEnd(0, 0),
            WStep::Write(0, 2000),
            WStep::Flush(0),
            WStep::CreateStream(1, "/b".into()),
            WStep::Write(1, 3000),
            WStep::Flush(1),
            WStep::Flush(0),
            WStep::Flush(1),
            WStep::DropHandle(0),
            WStep::DropHandle(1),
            WStep::CompFlush,
        ],
    ));
    // a regular chain is cut short but stays regular, another stream allocates, the shrink is repeated
    v.push((
        "shrink within regular, other stream allocates, shrink again".to_string(),
        1 << 20,
        vec![
            WStep::Create,
            WStep::CreateStream(0, "/a".into()),
            WStep::Write(0, 9000),
            WStep::Flush(0),
            WStep::SetLen(0, 4608),
            WStep::CreateStream(1, "/b".into()),
            WStep::Write(1, 4200),
            WStep::Flush(1),
            WStep::SetLen(0, 4608),
            WStep::SetLen(0, 4200),
            WStep::Flush(0),
            WStep::Flush(1),
            WStep::CreateStream(2, "/c".into()),
            WStep::Write(2, 300),
            WStep::Flush(2),
            WStep::Flush(1),
            WStep::DropHandle(0),
            WStep::DropHandle(1),
            WStep::DropHandle(2),
            WStep::CompFlush,
        ],
    ));
    // mini sectors are released at the tail of the mini stream (MiniFAT trimmed, root entry
    // rewritten) by set_len, by removal and by migration, and small streams are allocated afterwards
    v.push((
        "mini tail released, then reused".to_string(),
        1 << 20,
        vec![
            WStep::Create,
            WStep::CreateStream(0, "/a".into()),
            WStep::Write(0, 300),
            WStep::Flush(0),
            WStep::CreateStream(1, "/b".into()),
            WStep::Write(1, 200),
            WStep::Flush(1),
            WStep::SetLen(1, 0),
            WStep::Flush(1),
            WStep::CreateStream(2, "/c".into()),
            WStep::Write(2, 300),
            WStep::Flush(2),
            WStep::DropHandle(2),
            WStep::RemoveStream("/c".into()),
            WStep::CreateStream(2, "/e".into()),
            WStep::Write(2, 100),
            WStep::Flush(2),
            WStep::SeekStart(2, 0),
            WStep::Write(2, 5000),
            WStep::Flush(2),
            WStep::Write(1, 70),
            WStep::Flush(1),
            WStep::DropHandle(0),
            WStep::DropHandle(1),
            WStep::DropHandle(2),
            WStep::CompFlush,
        ],
    ));
    v
}

/// Generated mutating workloads: a prefix that fixes the starting state of stream /a (empty, a
/// flushed mini stream, a flushed regular stream), then EVERY sequence of `depth` steps over a
/// step alphabet on that handle and on a second small stream, then flushes of everything.
/// Workloads whose caller does not retry a failed call at once but comes back to it later, after other
/// streams have allocated (run with `no_retry`).
pub fn late_retry_workloads() -> Vec<(String, usize, Vec<WStep>)> {
    let mut v = Vec::new();
    for (label, size, other) in [("regular", 9000usize, 4200usize), ("mini", 3000, 1000), ("regular, small other", 9000, 300)] {
        v.push((
            format!("{} stream emptied (fails), other stream allocates and flushes, emptied again", label),
            1 << 20,
            vec![
                WStep::Create,
                WStep::CreateStream(0, "/a".into()),
                WStep::Write(0, size),
                WStep::Flush(0),
                WStep::SetLen(0, 0),
                WStep::CreateStream(1, "/b".into()),
                WStep::Write(1, other),
                WStep::Flush(1),
                WStep::SetLen(0, 0),
                WStep::Flush(0),
                WStep::Flush(1),
                WStep::Write(1, 10),
                WStep::Flush(1),
                WStep::DropHandle(0),
                WStep::DropHandle(1),
                WStep::CompFlush,
            ],
        ));
    }
    v
}

/// Workloads on a large V3 file: the write-back that needs the 110th FAT sector (the first one listed
/// in a DIFAT sector, at 109 x 128 sectors = 7.14 MB) and the one that needs the 237th (second DIFAT
/// sector).  Faults are injected only in the steps after the common prefix (last tuple field).
pub fn large_mutating_workloads() -> Vec<(String, usize, Vec<WStep>, usize)> {
    let mut v = Vec::new();
    for (label, size) in [("first DIFAT sector", 7_080_000usize), ("second DIFAT sector", 15_335_000)] {
        v.push((
            format!("large file: write-back that adds the {}", label),
            1 << 20,
            vec![
                WStep::Create,
                WStep::CreateStream(0, "/big".into()),
                WStep::Write(0, size),
                WStep::Flush(0),
                // leave the (large, already written) buffer window behind: the next write-back then
                // consists of the appended bytes only
                WStep::SeekStart(0, 0),
                WStep::SeekEnd(0, 0),
                // 6 steps above = prefix
                WStep::Write(0, 10_000),
                WStep::Flush(0),
                WStep::CreateStream(1, "/b".into()),
                WStep::Write(1, 5000),
                WStep::Flush(1),
                WStep::Flush(0),
                WStep::Write(0, 600),
                WStep::Flush(0),
                WStep::DropHandle(0),
                WStep::DropHandle(1),
                WStep::CompFlush,
            ],
            6,
        ));
    }
    v
}

pub fn generated_mutating_workloads(depth: usize) -> Vec<(String, usize, Vec<WStep>, usize)> {
    let prefixes: Vec<(&str, Vec<WStep>)> = vec![
        ("empty", vec![WStep::Create, WStep::CreateStream(0, "/a".into())]),
        ("mini300", vec![WStep::Create, WStep::CreateStream(0, "/a".into()), WStep::Write(0, 300), WStep::Flush(0)]),
        ("regular5000", vec![WStep::Create, WStep::CreateStream(0, "/a".into()), WStep::Write(0, 5000), WStep::Flush(0)]),
        ("regular9000", vec![WStep::Create, WStep::CreateStream(0, "/a".into()), WStep::Write(0, 9000), WStep::Flush(0)]),
    ];
    let alpha: Vec<WStep> = vec![
        WStep::Write(0, 100),
        WStep::Write(0, 4000),
        WStep::Flush(0),
        WStep::SetLen(0, 0),
        WStep::SetLen(0, 200),
        WStep::SetLen(0, 5000),
        WStep::SetLen(0, 4200),
        WStep::SeekStart(0, 0),
        WStep::SeekEnd(0, 0),
        WStep::CreateStream(1, "/b".into()),
        WStep::Write(1, 200),
        WStep::Write(1, 4200),
        WStep::SetLen(1, 0),
        WStep::RemoveStream("/b".into()),
    ];
    let mut seqs: Vec<Vec<usize>> = vec![vec![]];
    for _ in 0..depth {
        let mut next = Vec::new();
        for q in &seqs {
            for i in 0..alpha.len() {
                // handle 1 must exist before it is used, and must have been dropped before /b is removed
                let has_b = q.iter().fold(false, |acc, &j| match alpha[j] {
                    WStep::CreateStream(1, _) => true,
                    WStep::RemoveStream(_) => false,
                    _ => acc,
                });
                let ok = match alpha[i] {
                    WStep::Write(1, _) | WStep::SetLen(1, _) | WStep::RemoveStream(_) => has_b,
                    WStep::CreateStream(1, _) => !has_b,
                    _ => true,
                };
                if ok {
                    let mut t = q.clone();
                    t.push(i);
                    next.push(t);
                }
            }
        }
        seqs = next;
    }
    let mut out = Vec::new();
    for (pname, pre) in &prefixes {
        for q in &seqs {
            let mut steps = pre.clone();
            for &i in q {
                if let WStep::RemoveStream(_) = alpha[i] {
                    // the handle on /b is flushed and dropped first (a held stream is never removed)
                    steps.push(WStep::Flush(1));
                    steps.push(WStep::DropHandle(1));
                }
                steps.push(alpha[i].clone());
            }
            let has_b = q.iter().fold(false, |acc, &j| match alpha[j] {
                WStep::CreateStream(1, _) => true,
                WStep::RemoveStream(_) => false,
                _ => acc,
            });
            steps.push(WStep::Flush(0));
            if has_b {
                steps.push(WStep::Flush(1));
                steps.push(WStep::DropHandle(1));
            }
            steps.push(WStep::DropHandle(0));
            steps.push(WStep::CompFlush);
            let name = format!("gen:{}:{}", pname, q.iter().map(|i| i.to_string()).collect::<Vec<_>>().join("."));
            out.push((name, 1 << 20, steps, pre.len()));
        }
    }
    out
}

// ---------------------------------------------------------------------- //
// C18: same history under different backends / chunkings

use crate::runner::History;

pub struct HistRun {
    pub outcomes: Vec<String>,
    pub image: Vec<u8>,
    pub dump: Option<crate::refmodel::Dump>,
    pub calls: u64,
    pub log: Vec<(CallKind, u32)>,
    pub panic: Option<String>,
}

/// Runs a history on a FaultFile<MemFile> with the given control settings.
pub fn run_hist_on_fault(h: &History, plan: BTreeMap<u64, Fault>, chunk: Option<usize>, interrupt_every: Option<u64>, max_buf: Option<usize>) -> HistRun {
    let ctl = FaultCtl::new();
    ctl.set_chunk(chunk);
    ctl.set_interrupt_every(interrupt_every);
    let mem = MemFile::new(Vec::new());
    let mut out = HistRun { outcomes: Vec::new(), image: Vec::new(), dump: None, calls: 0, log: Vec::new(), panic: None };
    ctl.arm(plan, true);
    let r = guarded(|| -> Result<(), String> {
        let ff = FaultFile::new(mem.clone(), ctl.clone());
        let mut comp = if h.version == 3 {
            let c = CompoundFile::create_with_version(cfb::Version::V3, ff).map_err(|e| format!("create: {}", e))?;
            match max_buf {
                // the only public way to choose a buffer size for a V3 file
                Some(m) => cfb::OpenOptions::new().max_buffer_size(m).open_with(c.into_inner()).map_err(|e| format!("reopen: {}", e))?,
                None => c,
            }
        } else {
            let mut o = cfb::OpenOptions::new();
            if let Some(m) = max_buf {
                o = o.max_buffer_size(m);
            }
            o.create_with(ff).map_err(|e| format!("create: {}", e))?
        };
        let mut model = crate::refmodel::Model::new(ops::pin_filetime());
        let all_ops: Vec<ops::Op> = crate::seeds::seed_ops(&h.seed)?.into_iter().chain(h.ops.iter().cloned()).collect();
        for op in &all_ops {
            let st = ops::exec(&mut comp, op, &mut model);
            out.outcomes.push(st.outcome.short());
            if let Err(m) = st.verdict {
                return Err(format!("{:?}: {}", op, m));
            }
        }
        comp.flush().map_err(|e| format!("flush: {}", e))?;
        // reopen the result through the same backend (same chunking / interruptions still in
        // force) and read everything back: the loaders used by open are part of the property
        let inner = comp.into_inner();
        let mut comp2 = cfb::OpenOptions::new().open_with(inner).map_err(|e| format!("reopen through the variant backend: {}", e))?;
        out.dump = Some(ops::dump_real(&mut comp2).map_err(|e| format!("dump after reopen through the variant backend: {}", e))?);
        let mut strict = cfb::OpenOptions::new().strict().open_with(comp2.into_inner()).map_err(|e| format!("strict reopen through the variant backend: {}", e))?;
        let d2 = ops::dump_real(&mut strict).map_err(|e| format!("dump after strict reopen: {}", e))?;
        if Some(&d2) != out.dump.as_ref() {
            return Err("strict and permissive reopen through the variant backend differ".into());
        }
        Ok(())
    });
    match r {
        Ok(Ok(())) => {}
        Ok(Err(e)) => out.panic = Some(format!("history failed: {}", e)),
        Err(p) => out.panic = Some(format!("PANIC: {}", p)),
    }
    out.calls = ctl.count();
    out.log = ctl.log();
    ctl.disarm();
    out.image = mem.snapshot();
    out
}

/// Runs a history on a real file through the path-based constructors.
/// `preexisting`: the path already holds a longer file (create must replace it).
pub fn run_hist_on_fs(h: &History, dir: &std::path::Path, tag: &str, preexisting: bool) -> Result<(Vec<String>, Vec<u8>), String> {
    let path = dir.join(format!("c18-{}-{}.cfb", std::process::id(), tag));
    if preexisting {
        std::fs::write(&path, vec![0xA5u8; 300_000]).map_err(|e| e.to_string())?;
    }
    let all_ops: Vec<ops::Op> = crate::seeds::seed_ops(&h.seed)?.into_iter().chain(h.ops.iter().cloned()).collect();
    let half = all_ops.len() / 2;
    let mut outcomes = Vec::new();
    let r = guarded(|| -> Result<(), String> {
        let mut model = crate::refmodel::Model::new(ops::pin_filetime());
        {
            // cfb::create only makes V4 files; V3 goes through File + create_with_version
            let mut comp = if h.version == 4 {
                if half % 2 == 0 { cfb::create(&path) } else { cfb::OpenOptions::new().create(&path) }.map_err(|e| format!("cfb::create: {}", e))?
            } else {
                let f = std::fs::OpenOptions::new().read(true).write(true).create(true).truncate(true).open(&path).map_err(|e| e.to_string())?;
                CompoundFile::create_with_version(cfb::Version::V3, f).map_err(|e| format!("create: {}", e))?
            };
            for op in &all_ops[..half] {
                let st = ops::exec(&mut comp, op, &mut model);
                outcomes.push(st.outcome.short());
                st.verdict.map_err(|m| format!("{:?}: {}", op, m))?;
            }
            comp.flush().map_err(|e| e.to_string())?;
        }
        {
            // continue through open_rw (path-based), alternating the two entry points
            let mut comp = if half % 2 == 0 { cfb::open_rw(&path) } else { cfb::OpenOptions::new().open_rw(&path) }.map_err(|e| format!("open_rw: {}", e))?;
            for op in &all_ops[half..] {
                let st = ops::exec(&mut comp, op, &mut model);
                outcomes.push(st.outcome.short());
                st.verdict.map_err(|m| format!("{:?}: {}", op, m))?;
            }
            comp.flush().map_err(|e| e.to_string())?;
        }
        // read-only open through cfb::open must expose the model's content
        let mut ro = cfb::open(&path).map_err(|e| format!("cfb::open: {}", e))?;
        let d = ops::dump_real(&mut ro)?;
        if let Some(diff) = model.root.dump().diff(&d) {
            return Err(format!("cfb::open view differs from model: {}", diff));
        }
        Ok(())
    });
    let bytes = std::fs::read(&path).unwrap_or_default();
    let _ = std::fs::remove_file(&path);
    match r {
        Ok(Ok(())) => Ok((outcomes, bytes)),
        Ok(Err(e)) => Err(e),
        Err(p) => Err(format!("PANIC: {}", p)),
    }
}

pub struct C18Stats {
    pub histories: u64,
    pub runs: u64,
    pub calls: u64,
}

pub fn c18_explore(ctx: &Ctx, hists: &[History], chunks: &[usize], bufs: &[usize], each_k: bool, fs_dir: &std::path::Path) -> C18Stats {
    let runs = std::sync::atomic::AtomicU64::new(0);
    let calls = std::sync::atomic::AtomicU64::new(0);
    hists.par_iter().enumerate().for_each(|(hi, h)| {
        use std::sync::atomic::Ordering::Relaxed;
        let rep = |class: &str, msg: String, variant: serde_json::Value| {
            ctx.report(Violation {
                class: class.to_string(),
                sig: format!("{}:{}", class, sig_norm(&msg).chars().take(80).collect::<String>()),
                msg: format!("{} [history v{} seed={} ops={:?}]", msg, h.version, h.seed, h.ops),
                replay: json!({"kind": "c18", "history": h, "variant": variant}),
            });
        };
        let reference = run_hist_on_fault(h, BTreeMap::new(), None, None, None);
        runs.fetch_add(1, Relaxed);
        calls.fetch_add(reference.calls, Relaxed);
        if let Some(p) = &reference.panic {
            // failures of the history itself are C01's business unless a panic
            if p.starts_with("PANIC") {
                rep("panic", p.clone(), json!("reference"));
            }
            return;
        }
        if hi % 97 == 0 {
            ctx.sample(json!({"history": h, "underlying_calls": reference.calls, "variants": "rerun, fs, chunk sizes, short@k, interrupted@k, buffer sizes"}));
        }
        let cmp = |name: String, r: &HistRun, variant: serde_json::Value| {
            if let Some(p) = &r.panic {
                rep(if p.starts_with("PANIC") { "panic" } else { "differs" }, format!("variant {}: {}", name, p), variant);
            } else if r.outcomes != reference.outcomes {
                rep("differs", format!("variant {}: API results differ from the plain run", name), variant);
            } else if r.image != reference.image {
                let d = r.image.iter().zip(reference.image.iter()).position(|(a, b)| a != b);
                rep("differs", format!("variant {}: final image differs from the plain run (len {} vs {}, first diff {:?})", name, r.image.len(), reference.image.len(), d), variant);
            } else if r.dump != reference.dump {
                rep("differs", format!("variant {}: content read back through the variant backend differs from the plain run", name), variant);
            }
        };
        // (a) rerun
        let again = run_hist_on_fault(h, BTreeMap::new(), None, None, None);
        runs.fetch_add(1, Relaxed);
        cmp("rerun".into(), &again, json!("rerun"));
        // (b) real file through the path-based constructors: on a fresh path, and (V4, where the
        // library opens the file itself) on a path that already holds a longer file
        for pre in [false, true] {
            if pre && h.version != 4 {
                continue;
            }
            let vname = if pre { "fs-over-existing-file" } else { "fs" };
            match run_hist_on_fs(h, fs_dir, &format!("{}{}", hi, if pre { "p" } else { "" }), pre) {
                Ok((outs, bytes)) => {
                    if outs != reference.outcomes {
                        rep("differs", format!("variant {}: API results differ from the in-memory run", vname), json!(vname));
                    } else if bytes != reference.image {
                        rep("differs", format!("variant {}: file bytes differ from the in-memory image (len {} vs {})", vname, bytes.len(), reference.image.len()), json!(vname));
                    }
                }
                Err(e) => rep(if e.starts_with("PANIC") { "panic" } else { "differs" }, format!("variant {}: {}", vname, e), json!(vname)),
            }
            runs.fetch_add(1, Relaxed);
        }
        // (c) chunked transfers
        for &c in chunks {
            let r = run_hist_on_fault(h, BTreeMap::new(), Some(c), None, None);
            runs.fetch_add(1, Relaxed);
            calls.fetch_add(r.calls, Relaxed);
            cmp(format!("chunk={}", c), &r, json!({"chunk": c}));
        }
        // interrupted on every n-th transfer
        for n in [2u64, 3, 5] {
            let r = run_hist_on_fault(h, BTreeMap::new(), None, Some(n), None);
            runs.fetch_add(1, Relaxed);
            calls.fetch_add(r.calls, Relaxed);
            cmp(format!("interrupt_every={}", n), &r, json!({"interrupt_every": n}));
        }
        // (d), (e) a single short count / Interrupted at every transfer index k
        if each_k {
            for (k, (kind, _)) in reference.log.iter().enumerate() {
                if *kind != CallKind::Read && *kind != CallKind::Write {
                    continue;
                }
                for f in [Fault::Short(1), Fault::Interrupted] {
                    let mut plan = BTreeMap::new();
                    plan.insert(k as u64, f);
                    let r = run_hist_on_fault(h, plan, None, None, None);
                    runs.fetch_add(1, Relaxed);
                    calls.fetch_add(r.calls, Relaxed);
                    cmp(format!("{:?}@{}", f, k), &r, json!({"plan": [[k, f]]}));
                }
            }
        }
        // (f) buffer sizes: identical logical outcome
        for &b in bufs {
            let r = run_hist_on_fault(h, BTreeMap::new(), None, None, Some(b));
            runs.fetch_add(1, Relaxed);
            if let Some(p) = &r.panic {
                rep(if p.starts_with("PANIC") { "panic" } else { "differs" }, format!("variant max_buf={}: {}", b, p), json!({"max_buf": b}));
            } else if r.outcomes != reference.outcomes || r.dump != reference.dump {
                rep("differs", format!("variant max_buf={}: logical outcome differs", b), json!({"max_buf": b}));
            }
        }
        // (g) the other version: identical logical outcome
        let mut other = h.clone();
        other.version = if h.version == 3 { 4 } else { 3 };
        let r = run_hist_on_fault(&other, BTreeMap::new(), None, None, None);
        runs.fetch_add(1, Relaxed);
        if r.panic.is_none() && (r.outcomes != reference.outcomes || r.dump != reference.dump) {
            rep("differs", "variant other-version: logical outcome differs between v3 and v4".into(), json!("other-version"));
        }
    });
    use std::sync::atomic::Ordering::Relaxed;
    C18Stats { histories: hists.len() as u64, runs: runs.load(Relaxed), calls: calls.load(Relaxed) }
}

// ---------------------------------------------------------------------- //
// C08 under faults: a resize that fails part-way, then (without a retry) a growth

#[derive(Clone, Debug, Serialize, Deserialize)]
pub struct ResizeFaultCase {
    pub version: u16,
    pub initial: usize,
    pub first: u64,
    pub second: u64,
    /// index of the failing underlying call, counted from the start of the first set_len
    pub fail_at: Option<u64>,
    /// the first operation is not set_len(first) but an append of `first` bytes (write at the end + flush)
    #[serde(default)]
    pub first_is_append: bool,
    /// the file is reopened from its bytes between the failed operation and the growth
    #[serde(default)]
    pub reopen: bool,
}

/// Runs one case; returns (underlying calls made by the first set_len, problem).
pub fn run_resize_fault_case(c: &ResizeFaultCase) -> (u64, Option<(String, String)>) {
    let mut calls = 0u64;
    let res = guarded(|| -> Result<Option<String>, String> {
        let ctl = FaultCtl::new();
        let mem = MemFile::new(Vec::new());
        let ff = FaultFile::new(mem.clone(), ctl.clone());
        let mut comp = if c.version == 3 { CompoundFile::create_with_version(cfb::Version::V3, ff) } else { CompoundFile::create_with_version(cfb::Version::V4, ff) }.map_err(|e| format!("create: {}", e))?;
        let pat = ops::pattern(4242, c.initial);
        {
            let mut s = comp.create_stream("/a").map_err(|e| format!("create_stream: {}", e))?;
            s.write_all(&pat).map_err(|e| e.to_string())?;
            s.flush().map_err(|e| e.to_string())?;
        }
        // a neighbour, so that freed sectors / mini sectors have somewhere to be reused from
        {
            let mut s = comp.create_stream("/z").map_err(|e| format!("create_stream: {}", e))?;
            s.write_all(&ops::pattern(7, 100)).map_err(|e| e.to_string())?;
            s.flush().map_err(|e| e.to_string())?;
        }
        let mut h = ops::NoDropOnPanic::new(comp.open_stream("/a").map_err(|e| e.to_string())?);
        let mut plan = BTreeMap::new();
        if let Some(k) = c.fail_at {
            plan.insert(k, Fault::Fail);
        }
        ctl.arm(plan, false);
        let r1 = if c.first_is_append {
            h.seek(SeekFrom::End(0)).and_then(|_| h.write_all(&ops::pattern(99, c.first as usize))).and_then(|_| h.flush())
        } else {
            h.set_len(c.first)
        };
        calls = ctl.count();
        ctl.disarm();
        if c.reopen {
            // the session ends here (as a process that exits without running destructors would): the
            // handle's Drop must not get a second, fault-free attempt at the write-back
            std::mem::forget(h);
        } else {
            drop(h);
        }
        if c.fail_at.is_some() && r1.is_ok() {
            return Ok(None); // the fault index lies beyond this run's calls
        }
        // the caller does not retry: it looks at the stream again (possibly in a new session) and grows it
        if c.reopen {
            let image = mem.snapshot();
            std::mem::forget(comp);
            return match ops::Live::open(image, false) {
                Ok(mut l) => {
                    let m = l.mem.clone();
                    resize_tail(c, &mut l.comp, &m)
                }
                Err(_) => Ok(None),
            };
        }
        return resize_tail(c, &mut comp, &mem);
    });
    match res {
        Ok(Ok(None)) => (calls, None),
        Ok(Ok(Some(m))) => (calls, Some(("array".into(), m))),
        Ok(Err(e)) => (calls, Some(("machinery".into(), e))),
        Err(p) => (calls, Some(("panic".into(), format!("resize under a fault panicked: {}", p)))),
    }
}

fn resize_tail<F: Read + Write + Seek>(c: &ResizeFaultCase, comp: &mut CompoundFile<F>, mem: &MemFile) -> Result<Option<String>, String> {
    {
        let mut f = match comp.open_stream("/a") {
            Ok(f) => ops::NoDropOnPanic::new(f),
            Err(_) => return Ok(None),
        };
        let visible = f.len();
        if f.set_len(c.second).is_err() || f.flush().is_err() {
            return Ok(None);
        }
        drop(f);
        let zero_from = visible.min(c.second) as usize;
        let judge = |got: &[u8], how: &str| -> Option<String> {
            if got.len() as u64 != c.second {
                return None; // length disagreement after a failed call is not this oracle's business
            }
            got[zero_from..].iter().position(|&b| b != 0).map(|i| format!("{}: after {} that failed{} and a set_len({}) from a visible length of {}, byte {} reads {:#04x} instead of zero", how, if c.first_is_append { format!("an append of {} bytes", c.first) } else { format!("a set_len({})", c.first) }, if c.reopen { " and a reopen" } else { "" }, c.second, visible, zero_from + i, got[zero_from + i]))
        };
        let mut got = Vec::new();
        match comp.open_stream("/a") {
            Ok(mut s) => {
                if s.read_to_end(&mut got).is_ok() {
                    if let Some(m) = judge(&got, "live") {
                        return Ok(Some(m));
                    }
                }
            }
            Err(_) => return Ok(None),
        }
        if let Ok(mut l) = ops::Live::open(mem.snapshot(), false) {
            if let Ok(mut s) = l.comp.open_stream("/a") {
                let mut got2 = Vec::new();
                if s.read_to_end(&mut got2).is_ok() {
                    if let Some(m) = judge(&got2, "reopened") {
                        return Ok(Some(m));
                    }
                }
            }
        }
        Ok(None)
    }
}

/// Every (initial size, first resize, second resize) of the alphabets x a failure at every underlying
/// call of the first resize.  Returns (runs, fault positions).
pub fn explore_resize_faults(ctx: &Ctx, version: u16, thorough: bool) -> (u64, u64) {
    let sl = if version == 3 { 512usize } else { 4096 };
    let initials: Vec<usize> = if thorough { vec![300, 4000, 4096, 8192, 9000, 4 * sl + 4096, 20_000] } else { vec![300, 4000, 8192, 9000] };
    let firsts: Vec<u64> = vec![0, 100, 4096, 4200, 4608, 8000];
    let seconds: Vec<u64> = if thorough { vec![200, 4095, 5000, 7200, 12_000, 30_000] } else { vec![200, 5000, 7200, 12_000] };
    let mut cases = Vec::new();
    for &i in &initials {
        for &a in &firsts {
            if a as usize == i {
                continue;
            }
            for &b in &seconds {
                cases.push(ResizeFaultCase { version, initial: i, first: a, second: b, fail_at: None, first_is_append: false, reopen: false });
            }
        }
        // an append that fails part-way (data written, directory entry not), then - in the same session
        // or after reopening the bytes - a growth
        for &a in &[600u64, 3000] {
            for &b in &seconds {
                if b as usize > i {
                    for reopen in [false, true] {
                        cases.push(ResizeFaultCase { version, initial: i, first: a, second: b, fail_at: None, first_is_append: true, reopen });
                    }
                }
            }
        }
    }
    let counts: Vec<(u64, u64)> = cases
        .par_iter()
        .map(|c0| {
            let (n, p) = run_resize_fault_case(c0);
            let mut runs = 1u64;
            if let Some((class, msg)) = p {
                ctx.report(Violation { sig: format!("{}:zero-growth-reference:{}", class, sig_norm(&msg).chars().take(60).collect::<String>()), class, msg, replay: json!({"kind": "resize_fault", "resize_fault": c0}) });
                return (runs, 0);
            }
            for k in 0..n {
                let c = ResizeFaultCase { fail_at: Some(k), ..c0.clone() };
                let (_, p) = run_resize_fault_case(&c);
                runs += 1;
                if let Some((class, msg)) = p {
                    let what = if class == "array" { "stale-bytes-after-failed-resize-then-growth".to_string() } else { sig_norm(&msg).chars().take(80).collect::<String>() };
                    ctx.report(Violation { sig: format!("{}:{}", class, what), class, msg: format!("{} [v{} initial {} fault at call {} of the first resize]", msg, version, c.initial, k), replay: json!({"kind": "resize_fault", "resize_fault": c}) });
                }
            }
            (runs, n)
        })
        .collect();
    let mut t = (0u64, 0u64);
    for (a, b) in counts {
        t.0 += a;
        t.1 += b;
    }
    t
}
