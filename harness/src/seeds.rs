//! Named start states.  Every seed is produced by running operations through
//! the library (so the model is known) and is rebuilt identically on replay.
//!
//! Grammar: `fresh` | item ('+' item)*, item = `s<K>x<SIZE>` (K streams
//! /f<item>_<i> of SIZE bytes) | `d<K>` (K storages /g<item>_<i>) | `b<BYTES>` (one stream
//! /big of BYTES bytes) | `r<K>x<SIZE>` (create then remove K streams /t<item>_<i>) |
//! `g<K>x<SIZE>` (K pairs /x<item>_<i>, /k<item>_<i> created alternately, then every /x removed:
//! K free gaps, each below a stream that stays).
use crate::ops::Op;
use crate::runner::{Oracles, Runner};

pub fn seed_ops(seed: &str) -> Result<Vec<Op>, String> {
    let mut ops = Vec::new();
    if seed == "fresh" {
        return Ok(ops);
    }
    for (j, item) in seed.split('+').enumerate() {
        let (tag, rest) = item.split_at(1);
        match tag {
            "s" | "r" => {
                let mut it = rest.split('x');
                let k: usize = it.next().and_then(|x| x.parse().ok()).ok_or(format!("bad seed item {}", item))?;
                let size: usize = it.next().and_then(|x| x.parse().ok()).ok_or(format!("bad seed item {}", item))?;
                let pfx = if tag == "s" { "f" } else { "t" };
                for i in 0..k {
                    ops.push(Op::Rewrite(format!("/{}{}_{}", pfx, j, i), size));
                }
                if tag == "r" {
                    for i in 0..k {
                        ops.push(Op::RemoveStream(format!("/{}{}_{}", pfx, j, i)));
                    }
                }
            }
            "g" => {
                let mut it = rest.split('x');
                let k: usize = it.next().and_then(|x| x.parse().ok()).ok_or(format!("bad seed item {}", item))?;
                let size: usize = it.next().and_then(|x| x.parse().ok()).ok_or(format!("bad seed item {}", item))?;
                for i in 0..k {
                    ops.push(Op::Rewrite(format!("/x{}_{}", j, i), size));
                    ops.push(Op::Rewrite(format!("/k{}_{}", j, i), size));
                }
                for i in 0..k {
                    ops.push(Op::RemoveStream(format!("/x{}_{}", j, i)));
                }
            }
            "d" => {
                let k: usize = rest.parse().map_err(|_| format!("bad seed item {}", item))?;
                for i in 0..k {
                    ops.push(Op::CreateStorage(format!("/g{}_{}", j, i)));
                }
            }
            "b" => {
                let n: usize = rest.parse().map_err(|_| format!("bad seed item {}", item))?;
                ops.push(Op::Rewrite(format!("/big{}", j), n));
            }
            _ => return Err(format!("bad seed item {}", item)),
        }
    }
    Ok(ops)
}

pub fn build(seed: &str, version: u16) -> Result<Runner, String> {
    let mut r = Runner::fresh(version)?;
    for op in seed_ops(seed)? {
        let rep = r.step(&op, &Oracles::LIGHT, &[]);
        if !rep.problems.is_empty() || !rep.outcome.is_ok() {
            return Err(format!("seed {} failed at {:?}: {:?} {}", seed, op, rep.problems, rep.outcome.short()));
        }
    }
    Ok(r)
}
