//! Stall watchdog: a case that runs longer than the limit is a hang.  The
//! watchdog reports it as a violation (class "hang") with the case as the
//! replay artefact, writes the evidence and ends the process with exit 1.
use crate::report::{Ctx, Violation};
use std::collections::HashMap;
use std::sync::Mutex;
use std::thread::ThreadId;
use std::time::{Duration, Instant};

static CASES: Mutex<Option<HashMap<ThreadId, (Instant, serde_json::Value)>>> = Mutex::new(None);

pub fn enter(case: serde_json::Value) {
    let mut g = CASES.lock().unwrap();
    g.get_or_insert_with(HashMap::new).insert(std::thread::current().id(), (Instant::now(), case));
}

pub fn leave() {
    let mut g = CASES.lock().unwrap();
    if let Some(m) = g.as_mut() {
        m.remove(&std::thread::current().id());
    }
}

pub fn start(ctx: &'static Ctx, limit: Duration) {
    std::thread::spawn(move || loop {
        std::thread::sleep(Duration::from_millis(500));
        let stuck: Option<serde_json::Value> = {
            let g = CASES.lock().unwrap();
            g.as_ref().and_then(|m| m.values().find(|(t, _)| t.elapsed() > limit).map(|(_, c)| c.clone()))
        };
        if let Some(case) = stuck {
            ctx.report(Violation {
                class: "hang".into(),
                sig: format!("hang:{}", ctx.property),
                msg: format!("a case did not finish within {:?} (non-termination)", limit),
                replay: case,
            });
            ctx.not_exhaustive("stopped by the stall watchdog");
            let code = ctx.finish(ctx.get("states_so_far"), ctx.get("transitions_so_far"));
            std::process::exit(code.max(1));
        }
    });
}
