//! E2: layouts written by "another implementation" (C04) and documented
//! deviations (C16).  Files come from the independent writer (synth.rs) and
//! are certified by the independent checker before the library sees them.
use crate::ops::{self, Live, Op};
use crate::refmodel::{Kind, Model, Node};
use crate::report::{sig_norm, Ctx, Violation};
use crate::runner::{Oracles, Runner};
use crate::spec;
use crate::synth::{self, Layout, TreeSpec};
use rayon::prelude::*;
use serde::{Deserialize, Serialize};
use serde_json::json;

fn stream(name: &str, n: usize, bits: u32) -> Node {
    let mut s = Node::new_child(name, Kind::Stream, 0);
    s.data = ops::pattern(ops::seed_of(name, n as u64, 77), n);
    s.state_bits = bits;
    s
}

fn storage(name: &str, kids: Vec<Node>) -> Node {
    let mut s = Node::new_child(name, Kind::Storage, ops::pin_filetime());
    s.children = kids;
    s.clsid = [0x11, 0x22, 0x33, 0x44, 0x55, 0x66, 0x77, 0x88, 0x99, 0xaa, 0xbb, 0xcc, 0xdd, 0xee, 0xff, 0x01];
    s.state_bits = 0x0102_0304;
    s
}

pub fn content(name: &str, version: u16) -> Option<Node> {
    let sl = synth::sector_len(version);
    let mut root = Node::new_root();
    root.children = match name {
        "two-mini" => vec![stream("s1", 1, 0), stream("s2", 65, 7)],
        "one-big" => vec![stream("big", 2 * sl + 1, 0)],
        "three-mixed" => vec![stream("a", 64, 1), storage("B", vec![stream("x", 4096, 2), stream("Y", 0, 3)]), stream("cc", 4097, 4)],
        "four-sizes" => vec![stream("p", 0, 0), stream("q", 1, 0), stream("r", 4095, 0), stream("st", 2 * sl + 1, 0)],
        "four-names" => vec![stream("\u{1f600}", 10, 0), stream("\u{e000}x", 20, 0), stream("\u{e9}", 30, 0), stream("Z", 40, 0)],
        // same-length ASCII names on both sides of the letters: order depends on folding a-z (only) to upper case
        "punct-names" => vec![stream("ab", 10, 0), stream("a_", 20, 0), stream("a`", 30, 0), stream("a{", 40, 0)],
        // order decided by upper-casing non-ASCII letters (omega+a < OMEGA+b, e-acute+a < E-ACUTE+b)
        "cased-names" => vec![stream("\u{3c9}a", 10, 0), stream("\u{3a9}b", 20, 0), stream("\u{e9}a", 30, 0), stream("\u{c9}b", 40, 0)],
        // more than 128 sectors in V3: two FAT sectors that both matter
        "two-fat" => vec![stream("big", 70_000, 5), stream("s", 100, 6)],
        // names that fill the 64-byte name field completely (31 units + terminator)
        "long-names" => vec![stream(&"n".repeat(31), 70, 2), storage(&"\u{e9}".repeat(31), vec![stream("x", 5, 3)])],
        // storages stamped by another writer: instants before 1970 with and without a sub-second part,
        // 100 ns after the FILETIME origin, and a recent instant with a sub-second part
        "old-times" => {
            let mut a = storage("apollo", vec![stream("x", 5, 3)]);
            a.created = 116_302_906_594_050_000; // 1969-07-20T20:17:39.405Z
            a.modified = 116_302_906_590_000_000; // a whole second, before 1970
            let mut b = storage("origin", vec![]);
            b.created = 1;
            b.modified = 131_277_024_009_999_999; // 2017, 999999.9 microseconds into its second
            vec![a, b, stream("s", 70, 0)]
        }
        // "." and ".." are legal MS-CFB names (2.6.1 forbids only / \\ : !)
        "dot-names" => vec![stream(".", 10, 0), stream("..", 20, 0), stream("x", 30, 0)],
        "three-minis" => vec![stream("m1", 130, 0), stream("m2", 64, 0), stream("m3", 1, 0)],
        "nested" => vec![storage("d", vec![storage("e", vec![stream("f", 100, 9)]), stream("g", 5000, 0)]), stream("h", 3, 0)],
        "empty" => vec![],
        _ => return None,
    };
    root.clsid = [9; 16];
    root.state_bits = 5;
    root.modified = ops::pin_filetime();
    if name == "old-times" {
        root.created = 116_444_735_999_999_999; // 100 ns before 1970
        root.modified = 94_354_848_005_000_000; // 1900, half a second into its second
    }
    Some(root)
}

pub const CONTENTS: [&str; 10] = ["empty", "two-mini", "one-big", "three-mixed", "four-sizes", "four-names", "three-minis", "nested", "two-fat", "long-names"];
/// Contents of the layout enumeration (C04): the above plus two whose sibling order hinges on case folding.
pub const LAYOUT_CONTENTS: [&str; 14] = ["empty", "two-mini", "one-big", "three-mixed", "four-sizes", "four-names", "three-minis", "nested", "punct-names", "cased-names", "two-fat", "long-names", "old-times", "dot-names"];

#[derive(Clone, Debug, Serialize, Deserialize)]
pub struct LayoutCase {
    pub content: String,
    pub layout: Layout,
    /// every tree in the layout is a fully valid red-black tree
    pub rb_valid: bool,
    pub ops: Vec<Op>,
    /// byte patches applied after synthesis (deviations): (offset, bytes)
    pub patches: Vec<(usize, Vec<u8>)>,
    pub deviation: String,
    pub strict_must_reject: bool,
}

fn permutations(items: &[u32]) -> Vec<Vec<u32>> {
    if items.len() <= 1 {
        return vec![items.to_vec()];
    }
    let mut out = Vec::new();
    for i in 0..items.len() {
        let mut rest = items.to_vec();
        let x = rest.remove(i);
        for mut p in permutations(&rest) {
            p.insert(0, x);
            out.push(p);
        }
    }
    out
}

/// Storages (pre-order) with at least one child: child counts.
fn storage_child_counts(root: &Node) -> Vec<usize> {
    fn rec(n: &Node, out: &mut Vec<usize>) {
        if n.kind != Kind::Stream && !n.children.is_empty() {
            out.push(n.children.len());
        }
        let mut kids: Vec<&Node> = n.children.iter().collect();
        kids.sort_by(|a, b| crate::names::cmp(&a.name, &b.name));
        for k in kids {
            rec(k, out);
        }
    }
    let mut out = Vec::new();
    rec(root, &mut out);
    out
}

/// All layouts of one content, each dimension enumerated completely with the
/// others canonical (thorough: selected dimensions crossed).
pub fn layouts(cname: &str, version: u16, thorough: bool) -> Vec<(Layout, bool)> {
    let root = content(cname, version).unwrap();
    let base = Layout { version, free_fill: 0xA5, ..Default::default() };
    let mut out: Vec<(Layout, bool)> = vec![(base.clone(), true)];
    let (lsec, lmini) = synth::plan(&root, &base).unwrap();
    // (i) sector placement
    let ids: Vec<u32> = (0..lsec as u32).collect();
    if lsec <= if thorough { 7 } else { 6 } {
        for p in permutations(&ids) {
            out.push((Layout { sector_perm: p, ..base.clone() }, true));
        }
    } else {
        let mut rev = ids.clone();
        rev.reverse();
        out.push((Layout { sector_perm: rev, ..base.clone() }, true));
        for k in 1..lsec.min(12) {
            let mut r = ids.clone();
            r.rotate_left(k);
            out.push((Layout { sector_perm: r, ..base.clone() }, true));
        }
        // swap every adjacent pair
        for k in 0..lsec - 1 {
            let mut r = ids.clone();
            r.swap(k, k + 1);
            out.push((Layout { sector_perm: r, ..base.clone() }, true));
        }
    }
    // (viii) interior free sectors: every logical sector moved up by g, leaving gaps
    // (not for contents so large that the gaps would change the number of FAT sectors)
    for g in if lsec <= 40 { vec![2u32, 3] } else { vec![] } {
        let spread: Vec<u32> = ids.iter().map(|&i| i * g + (g - 1)).collect();
        out.push((Layout { sector_perm: spread.clone(), ..base.clone() }, true));
        let mut srev = spread.clone();
        srev.reverse();
        out.push((Layout { sector_perm: srev, ..base.clone() }, true));
    }
    for t in [1usize, 5] {
        out.push((Layout { trailing_free_sectors: t, ..base.clone() }, true));
    }
    // two FAT sectors listed in the header DIFAT in the order [1, 0]: the FAT sector that lives in
    // sector 0 is not the first one
    {
        let two = Layout { extra_fat_sectors: 1, ..base.clone() };
        if let Ok((l2, _)) = synth::plan(&root, &two) {
            let mut p: Vec<u32> = (0..l2 as u32).collect();
            p.swap(0, 1);
            out.push((Layout { sector_perm: p, ..two }, true));
        }
    }
    // header fields other writers set differently (minor version, transaction signature)
    for hv in [1u8, 2, 3] {
        out.push((Layout { header_variant: hv, ..base.clone() }, true));
    }
    // (ii)/(v) mini sector placement
    let mids: Vec<u32> = (0..lmini as u32).collect();
    if lmini >= 2 && lmini <= 6 {
        for p in permutations(&mids) {
            out.push((Layout { mini_perm: p.clone(), ..base.clone() }, true));
            let gap: Vec<u32> = p.iter().map(|&m| m * 2 + 1).collect();
            out.push((Layout { mini_perm: gap, ..base.clone() }, true));
        }
    } else if lmini > 6 {
        let mut r = mids.clone();
        r.reverse();
        out.push((Layout { mini_perm: r, ..base.clone() }, true));
        let gap: Vec<u32> = mids.iter().map(|&m| m * 3 + 2).collect();
        out.push((Layout { mini_perm: gap, ..base.clone() }, true));
        // mini stream spanning a sector boundary of the container
        let per = synth::sector_len(version) as u32 / 64;
        let far: Vec<u32> = mids.iter().map(|&m| m + per - 1).collect();
        out.push((Layout { mini_perm: far, ..base.clone() }, true));
    }
    // free mini sectors at the tail of the mini stream (common in files written elsewhere)
    if lmini >= 1 {
        for t in [1usize, 2, 9] {
            out.push((Layout { trailing_free_minis: t, ..base.clone() }, true));
            let mut r = mids.clone();
            r.reverse();
            out.push((Layout { trailing_free_minis: t, mini_perm: r, ..base.clone() }, true));
        }
    }
    // (iii) directory slots: all injective maps for <= 3 non-root entries over 2 directory sectors
    let n_nodes = root.count();
    let per_dir = synth::sector_len(version) as u32 / 128;
    if n_nodes >= 2 && n_nodes <= 4 {
        let max_slot = if version == 3 { 2 * per_dir } else { per_dir + 3 };
        let cand: Vec<u32> = if version == 3 { (1..max_slot).collect() } else { vec![1, 2, 3, 5, 31, 32, 33, 34] };
        fn inj(k: usize, cand: &[u32], cur: &mut Vec<u32>, out: &mut Vec<Vec<u32>>) {
            if cur.len() == k {
                out.push(cur.clone());
                return;
            }
            for &c in cand {
                if !cur.contains(&c) {
                    cur.push(c);
                    inj(k, cand, cur, out);
                    cur.pop();
                }
            }
        }
        let mut maps = Vec::new();
        inj(n_nodes - 1, &cand, &mut Vec::new(), &mut maps);
        for m in maps {
            let mut slots = vec![0u32];
            slots.extend(m);
            out.push((Layout { slots, ..base.clone() }, true));
        }
    } else if n_nodes > 4 {
        // reversed and spread slot assignments
        let mut slots: Vec<u32> = vec![0];
        slots.extend((1..n_nodes as u32).rev());
        out.push((Layout { slots, ..base.clone() }, true));
        let mut slots: Vec<u32> = vec![0];
        slots.extend((1..n_nodes as u32).map(|i| i * 2 + 1));
        out.push((Layout { slots, ..base.clone() }, true));
    }
    out.push((Layout { extra_dir_sectors: 2, ..base.clone() }, true));
    // (iv) sibling trees: all shapes x all colourings without adjacent reds
    let counts = storage_child_counts(&root);
    if !counts.is_empty() {
        let default: Vec<TreeSpec> = counts.iter().map(|&k| synth::balanced_tree(k)).collect();
        for (si, &k) in counts.iter().enumerate() {
            if k > 4 {
                continue;
            }
            for (rt, links) in synth::all_shapes(k) {
                for mask in 0..(1u32 << k) {
                    let red: Vec<bool> = (0..k).map(|i| mask & (1 << i) != 0).collect();
                    let t = TreeSpec { root: rt, links: links.clone(), red };
                    let (nrr, valid) = synth::colouring_props(&t);
                    if !nrr {
                        continue;
                    }
                    let mut trees = default.clone();
                    trees[si] = t;
                    out.push((Layout { trees, ..base.clone() }, valid));
                }
            }
        }
    }
    // (vi) DIFAT: surplus FAT sectors so that the DIFAT needs 0 / 1 / 2 sectors
    if version == 3 && (cname == "two-mini" || cname == "three-mixed") {
        for extra in [107usize, 108, 109, 110, 109 + 127, 109 + 128] {
            out.push((Layout { extra_fat_sectors: extra, ..base.clone() }, true));
        }
    }
    if version == 4 && cname == "two-mini" && thorough {
        for extra in [108usize, 109] {
            out.push((Layout { extra_fat_sectors: extra, ..base.clone() }, true));
        }
    }
    // crossed dimensions
    if thorough && lsec <= 8 && !counts.is_empty() && counts[0] <= 3 {
        let mut rev = ids.clone();
        rev.reverse();
        for (rt, links) in synth::all_shapes(counts[0]) {
            let k = counts[0];
            let t = TreeSpec { root: rt, links, red: vec![false; k] };
            let mut trees: Vec<TreeSpec> = counts.iter().map(|&k| synth::balanced_tree(k)).collect();
            trees[0] = t;
            let mut slots: Vec<u32> = vec![0];
            slots.extend((1..n_nodes as u32).rev());
            out.push((Layout { trees, slots, sector_perm: rev.clone(), ..base.clone() }, false));
        }
    }
    out
}

fn apply_patches(bytes: &mut Vec<u8>, patches: &[(usize, Vec<u8>)]) {
    for (off, data) in patches {
        if off + data.len() <= bytes.len() {
            bytes[*off..*off + data.len()].copy_from_slice(data);
        }
    }
}

/// Mutation ops applied to a foreign-layout file (C04: "mutating such a file
/// afterwards keeps C01-C03").
pub fn mutation_ops(root: &Node) -> Vec<Op> {
    let mut v = Vec::new();
    for (p, k) in root.all_paths() {
        if p == "/" {
            continue;
        }
        match k {
            Kind::Stream => {
                v.push(Op::RemoveStream(p.clone()));
                v.push(Op::Rewrite(p.clone(), 65));
                v.push(Op::Rewrite(p.clone(), 4096));
                v.push(Op::SetLen(p.clone(), 0));
                v.push(Op::SetLen(p.clone(), 5000));
                v.push(Op::Append(p.clone(), 64));
            }
            _ => {
                v.push(Op::RemoveStorage(p.clone()));
                v.push(Op::RemoveStorageAll(p.clone()));
                v.push(Op::CreateStream(format!("{}/new", p)));
                v.push(Op::SetClsid(p.clone(), [4; 16]));
            }
        }
    }
    v.push(Op::Rewrite("/new".into(), 100));
    v.push(Op::Rewrite("/A0".into(), 4096));
    v.push(Op::CreateStorage("/zzzz".into()));
    v.push(Op::CreateStorage("/\u{ff21}".into()));
    v.push(Op::RemoveStorageAll("/".into()));
    v
}

/// Runs one case.  Problems: (class, message).
pub fn run_case(c: &LayoutCase) -> Vec<(String, String)> {
    let mut problems = Vec::new();
    let root = match content(&c.content, c.layout.version) {
        Some(r) => r,
        None => return vec![("machinery".into(), format!("unknown content {}", c.content))],
    };
    let mut bytes = match synth::synth(&root, &c.layout) {
        Ok(b) => b,
        Err(e) => return vec![("machinery".into(), format!("synth failed: {}", e))],
    };
    // certify the undamaged file with the independent checker
    match spec::certify(&bytes) {
        Err(errs) => return vec![("machinery".into(), format!("synthesised file rejected by the independent checker: {:?}", &errs[..errs.len().min(3)]))],
        Ok((_, tree)) => {
            if let Some(d) = root.dump().diff(&tree.dump()) {
                return vec![("machinery".into(), format!("synthesised file does not encode its content: {}", d))];
            }
        }
    }
    apply_patches(&mut bytes, &c.patches);
    let want = root.dump();
    let deviated = !c.patches.is_empty();
    let mut strict_ok = false;
    for strict in [true, false] {
        let mode = if strict { "strict" } else { "permissive" };
        match Live::open(bytes.clone(), strict) {
            Err(e) => {
                if e.contains("PANIC") {
                    problems.push(("panic".into(), e));
                } else if strict && (deviated || !c.rb_valid) {
                    // rejection is allowed (required for deviations that strict must reject)
                } else if strict {
                    problems.push(("layout".into(), format!("strict open rejects a spec-valid file: {}", e)));
                } else if deviated {
                    problems.push(("leniency".into(), format!("permissive open rejects a file with the tolerated deviation '{}': {}", c.deviation, e)));
                } else {
                    problems.push(("layout".into(), format!("permissive open rejects a spec-valid file: {}", e)));
                }
            }
            Ok(mut l) => {
                if strict {
                    strict_ok = true;
                    if deviated && c.strict_must_reject {
                        problems.push(("leniency".into(), format!("strict open accepts the deviation '{}'", c.deviation)));
                    }
                }
                match ops::dump_real(&mut l.comp) {
                    Err(e) => problems.push((if e.contains("PANIC") { "panic".into() } else if deviated { "leniency".into() } else { "layout".into() }, format!("{} view cannot be dumped: {}", mode, e))),
                    Ok(d) => {
                        if let Some(diff) = want.diff(&d) {
                            problems.push((if deviated { "leniency".into() } else { "layout".into() }, format!("{} view differs from the encoded content: {}", mode, diff)));
                        }
                    }
                }
                // (names "." and ".." cannot be spelled in a path - neither by the model - so for that content
                // only the dump above, which reads every stream through the path its own listing reports, is judged)
                if !deviated && c.content != "dot-names" {
                    // lookups through the foreign sibling trees
                    let model = Model { root: root.clone(), pin: ops::pin_filetime() };
                    for (p, _) in root.all_paths() {
                        if let Err(m) = ops::probe(&mut l.comp, &model, &p, true) {
                            problems.push(("layout".into(), format!("{} lookup on a foreign layout: {}", mode, m)));
                            break;
                        }
                        if let Some(idx) = p.rfind('/') {
                            let (dir, name) = p.split_at(idx + 1);
                            for v in crate::names::case_variants(name) {
                                if let Err(m) = ops::probe(&mut l.comp, &model, &format!("{}{}", dir, v), false) {
                                    problems.push(("layout".into(), format!("{} lookup on a foreign layout: {}", mode, m)));
                                }
                            }
                        }
                    }
                }
            }
        }
    }
    let _ = strict_ok;
    // refused calls on a deviated file must leave the bytes alone (C10 on non-canonical input)
    if deviated && !c.ops.is_empty() {
        let model = Model { root: root.clone(), pin: ops::pin_filetime() };
        if let Ok(mut r) = Runner::from_image(c.layout.version, bytes.clone(), model) {
            let o = Oracles { model: false, probes: false, refusal: true, spec: false, reopen: false };
            for op in &c.ops {
                let rep = r.step(op, &o, &[]);
                for (class, msg) in rep.problems {
                    if class == "refusal" || class == "panic" {
                        problems.push((class, msg));
                    }
                }
            }
        }
    }
    // mutate the foreign file under the E1 oracles
    if !deviated && problems.is_empty() && !c.ops.is_empty() {
        let model = Model { root: root.clone(), pin: ops::pin_filetime() };
        match Runner::from_image(c.layout.version, bytes.clone(), model) {
            Err(e) => problems.push(("layout".into(), e)),
            Ok(mut r) => {
                for op in &c.ops {
                    let rep = r.step(op, &Oracles::ALL, &[]);
                    for (class, msg) in rep.problems {
                        problems.push((class, format!("mutating a foreign layout: {}", msg)));
                    }
                    if r.desync || r.poisoned {
                        break;
                    }
                }
            }
        }
    }
    problems
}

pub struct E2Stats {
    pub files: u64,
    pub cases: u64,
    pub steps: u64,
    pub rb_valid: u64,
}

fn report(ctx: &Ctx, c: &LayoutCase, problems: Vec<(String, String)>) {
    for (class, msg) in problems {
        let core = if let Some(i) = msg.find("after ") { msg[i..].splitn(2, ": ").nth(1).unwrap_or(&msg).to_string() } else { msg.clone() };
        let sig = if c.deviation.is_empty() {
            format!("{}:{}", class, sig_norm(&core).chars().take(100).collect::<String>())
        } else {
            // identity of a deviation finding: the kinds involved (no places, no values) + what went wrong
            let kinds: Vec<String> = c.deviation.split(" + ").map(|d| d.split('@').next().unwrap_or("").split(" (").next().unwrap_or("").replace(' ', "_")).collect();
            let what = core.split(':').next().unwrap_or("").split(" '").next().unwrap_or("");
            format!("{}:{}:{}", class, kinds.join("+"), sig_norm(what).chars().take(70).collect::<String>())
        };
        ctx.report(Violation { class, sig, msg: format!("{} [content {} v{} deviation '{}']", msg, c.content, c.layout.version, c.deviation), replay: json!({"kind": "layout", "layout": c}) });
    }
}

pub fn explore_layouts(ctx: &Ctx, version: u16, thorough: bool) -> E2Stats {
    let mut stats = E2Stats { files: 0, cases: 0, steps: 0, rb_valid: 0 };
    for cname in LAYOUT_CONTENTS {
        let root = content(cname, version).unwrap();
        let ls = layouts(cname, version, thorough);
        let mops = mutation_ops(&root);
        stats.files += ls.len() as u64;
        stats.rb_valid += ls.iter().filter(|l| l.1).count() as u64;
        let counts: Vec<(u64, u64)> = ls
            .par_iter()
            .map(|(layout, rb_valid)| {
                let mut cases = 0u64;
                let mut steps = 0u64;
                // plain read of the foreign file
                let c0 = LayoutCase { content: cname.to_string(), layout: layout.clone(), rb_valid: *rb_valid, ops: vec![], patches: vec![], deviation: String::new(), strict_must_reject: false };
                let p0 = run_case(&c0);
                cases += 1;
                let clean = p0.is_empty();
                report(ctx, &c0, p0);
                if clean {
                    // bursts of length 1 (and 2 in thorough for the small contents)
                    for op in &mops {
                        let c = LayoutCase { ops: vec![op.clone()], ..c0.clone() };
                        let p = run_case(&c);
                        cases += 1;
                        steps += 1;
                        let ok = p.is_empty();
                        report(ctx, &c, p);
                        if ok && thorough && mops.len() <= 24 {
                            for op2 in &mops {
                                let c2 = LayoutCase { ops: vec![op.clone(), op2.clone()], ..c0.clone() };
                                let p2 = run_case(&c2);
                                cases += 1;
                                steps += 2;
                                report(ctx, &c2, p2);
                            }
                        } else if ok && matches!(op, Op::RemoveStream(_) | Op::RemoveStorage(_)) {
                            // quick tier: after a removal (which relinks and recolours the foreign tree) every
                            // remaining entry is rewritten from memory in the same session
                            for (p2, k2) in root.all_paths() {
                                if p2 == "/" {
                                    continue;
                                }
                                let op2 = if k2 == Kind::Stream { Op::Append(p2.clone(), 3) } else { Op::SetStateBits(p2.clone(), 6) };
                                let c2 = LayoutCase { ops: vec![op.clone(), op2], ..c0.clone() };
                                let p2r = run_case(&c2);
                                cases += 1;
                                steps += 2;
                                report(ctx, &c2, p2r);
                            }
                        }
                    }
                }
                (cases, steps)
            })
            .collect();
        for (a, b) in counts {
            stats.cases += a;
            stats.steps += b;
        }
        if let Some((l, v)) = ls.get(ls.len() / 2) {
            ctx.sample(json!({"content": cname, "version": version, "layout": l, "rb_valid": v}));
        }
        ctx.note(format!("v{} content {}: layouts={} (fully valid red-black: {})", version, cname, ls.len(), ls.iter().filter(|l| l.1).count()));
    }
    stats
}

/// Histories that start on a *foreign* file whose sibling trees are genuine red-black trees (every
/// shape x every fully valid colouring of the chosen contents) - the library itself only ever writes
/// black nodes, so the relinking / recolouring code of removals is reachable from such files only.
/// Every removal is followed by every choice of one (thorough: two) further operations that rewrite
/// remaining entries from memory or remove another one, all in one live session, under the E1
/// oracles (the caller's deciding classes pick what counts).
pub fn explore_foreign_trees(ctx: &Ctx, version: u16, thorough: bool) -> E2Stats {
    let mut stats = E2Stats { files: 0, cases: 0, steps: 0, rb_valid: 0 };
    for cname in ["three-minis", "four-names", "three-mixed", "four-sizes", "nested"] {
        let root = content(cname, version).unwrap();
        let ls: Vec<(Layout, bool)> = layouts(cname, version, false).into_iter().filter(|(l, _)| !l.trees.is_empty()).collect();
        let paths: Vec<(String, Kind)> = root.all_paths().into_iter().filter(|(p, _)| p != "/").collect();
        let removals: Vec<Op> = paths.iter().map(|(p, k)| if *k == Kind::Stream { Op::RemoveStream(p.clone()) } else { Op::RemoveStorageAll(p.clone()) }).collect();
        let mut followers: Vec<Op> = removals.clone();
        for (p, k) in &paths {
            if *k == Kind::Stream {
                followers.push(Op::Append(p.clone(), 3));
            }
            followers.push(Op::SetStateBits(p.clone(), 6));
        }
        followers.push(Op::CreateStream("/new".into()));
        stats.files += ls.len() as u64;
        stats.rb_valid += ls.iter().filter(|l| l.1).count() as u64;
        let counts: Vec<(u64, u64)> = ls
            .par_iter()
            .map(|(layout, rb_valid)| {
                let c0 = LayoutCase { content: cname.to_string(), layout: layout.clone(), rb_valid: *rb_valid, ops: vec![], patches: vec![], deviation: String::new(), strict_must_reject: false };
                let mut cases = 0u64;
                let mut steps = 0u64;
                let mut seqs: Vec<Vec<Op>> = Vec::new();
                for r in &removals {
                    for f in &followers {
                        seqs.push(vec![r.clone(), f.clone()]);
                        if thorough || paths.len() <= 3 {
                            for g in &followers {
                                seqs.push(vec![r.clone(), f.clone(), g.clone()]);
                            }
                        }
                    }
                }
                for s in seqs {
                    let c = LayoutCase { ops: s, ..c0.clone() };
                    let p = run_case(&c);
                    cases += 1;
                    steps += c.ops.len() as u64;
                    report(ctx, &c, p);
                }
                (cases, steps)
            })
            .collect();
        for (a, b) in counts {
            stats.cases += a;
            stats.steps += b;
        }
        ctx.note(format!("v{} foreign red-black trees, content {}: files={} removals={} followers={}", version, cname, ls.len(), removals.len(), followers.len()));
    }
    stats
}

// ---------------------------------------------------------------------- //
// C16: documented deviations

fn le32(v: u32) -> Vec<u8> {
    v.to_le_bytes().to_vec()
}

/// All single deviations applicable to a (valid) file:
/// (name@place, patches, strict_must_reject)
pub fn deviations(bytes: &[u8]) -> Vec<(String, Vec<(usize, Vec<u8>)>, bool)> {
    let p = match spec::parse(bytes) {
        Ok(p) => p,
        Err(_) => return vec![],
    };
    let sl = p.sector_len;
    let cells = sl / 4;
    let mut out: Vec<(String, Vec<(usize, Vec<u8>)>, bool)> = Vec::new();
    // zero-padded FAT tail (cells beyond the last sector of the file)
    let n = p.num_sectors as usize;
    if p.fat.len() > n {
        let mut patches = Vec::new();
        for i in n..p.fat.len() {
            let off = p.sector_off(p.fat_sectors[i / cells]) + 4 * (i % cells);
            patches.push((off, le32(0)));
        }
        out.push(("zero-padded FAT tail".into(), patches, true));
    }
    // zero-padded DIFAT tail (only meaningful inside a DIFAT sector)
    if let Some(&last) = p.difat_sectors.last() {
        let base = p.sector_off(last);
        let used_in_last = (p.fat_sectors.len() - 109) - (p.difat_sectors.len() - 1) * (cells - 1);
        if used_in_last < cells - 1 {
            let patches = (used_in_last..cells - 1).map(|c| (base + 4 * c, le32(0))).collect();
            out.push(("zero-padded DIFAT tail".into(), patches, true));
        }
        // DIFAT chain ended by FREESECT
        out.push(("DIFAT chain ended by FREESECT".into(), vec![(base + 4 * (cells - 1), le32(spec::FREESECT))], true));
    } else {
        // header variant: first DIFAT sector = FREESECT (accepted in both modes by design)
        out.push(("header first DIFAT sector = FREESECT".into(), vec![(68, le32(spec::FREESECT))], false));
    }
    // FAT / DIFAT sector not marked as such
    let fat_cell_off = |i: usize| p.sector_off(p.fat_sectors[i / cells]) + 4 * (i % cells);
    for (k, &fs) in p.fat_sectors.iter().enumerate() {
        if k > 2 && k + 2 < p.fat_sectors.len() {
            continue; // first three and last two FAT sectors
        }
        for wrong in [spec::FREESECT, spec::ENDOFCHAIN, spec::DIFSECT] {
            out.push((format!("FAT sector not marked ({:#x})@{}", wrong, fs), vec![(fat_cell_off(fs as usize), le32(wrong))], true));
        }
    }
    for &ds in &p.difat_sectors {
        for wrong in [spec::FREESECT, spec::ENDOFCHAIN, spec::FATSECT] {
            out.push((format!("DIFAT sector not marked ({:#x})@{}", wrong, ds), vec![(fat_cell_off(ds as usize), le32(wrong))], true));
        }
    }
    // directory entry deviations
    let per = sl / 128;
    let slot_off = |i: usize| p.sector_off(p.dir_sectors[i / per]) + (i % per) * 128;
    for (i, e) in p.dir.iter().enumerate() {
        let o = slot_off(i);
        match e.obj_type {
            5 => {
                // wrong root name
                let mut nm = vec![0u8; 66];
                for (k, u) in "R".encode_utf16().enumerate() {
                    nm[2 * k..2 * k + 2].copy_from_slice(&u.to_le_bytes());
                }
                nm[64..66].copy_from_slice(&4u16.to_le_bytes());
                out.push(("wrong root name".into(), vec![(o, nm)], true));
                let mut nm2 = bytes[o..o + 66].to_vec();
                nm2[0] = b'r';
                out.push(("wrong root name (case)".into(), vec![(o, nm2)], true));
            }
            2 => {
                out.push((format!("CLSID on a stream@{}", i), vec![(o + 80, vec![7u8; 16])], true));
                out.push((format!("creation time on a stream@{}", i), vec![(o + 100, 5u64.to_le_bytes().to_vec())], true));
                out.push((format!("modified time on a stream@{}", i), vec![(o + 108, u64::MAX.to_le_bytes().to_vec())], true));
            }
            1 => {
                for s in [1u32, spec::ENDOFCHAIN, spec::FREESECT] {
                    out.push((format!("start sector on a storage ({:#x})@{}", s, i), vec![(o + 116, le32(s))], true));
                }
                out.push((format!("size on a storage@{}", i), vec![(o + 120, 77u64.to_le_bytes().to_vec())], true));
            }
            _ => {}
        }
        if e.obj_type == 1 || e.obj_type == 2 {
            // unterminated name: a non-zero unit right after the name
            let nlen = (e.name_len / 2 - 1) as usize;
            if nlen < 32 {
                out.push((format!("unterminated name@{}", i), vec![(o + 2 * nlen, 0x41u16.to_le_bytes().to_vec())], true));
            }
        }
        // red-red: make this node and one of its sibling-tree children red
        if e.obj_type == 1 || e.obj_type == 2 {
            for c in [e.left, e.right] {
                if c != spec::NOSTREAM && (c as usize) < p.dir.len() {
                    out.push((format!("adjacent red nodes@{}-{}", i, c), vec![(o + 67, vec![0]), (slot_off(c as usize) + 67, vec![0])], true));
                }
            }
        }
    }
    // header counts
    for (name, off, actual) in [("num FAT sectors", 44usize, p.hdr_num_fat), ("num DIFAT sectors", 72, p.hdr_num_difat), ("num MiniFAT sectors", 64, p.hdr_num_minifat)] {
        for wrong in [actual.wrapping_add(1), actual.wrapping_sub(1), 0, 0x7FFF_FFFF] {
            if wrong != actual {
                let dir = if wrong > actual { "too large" } else { "too small" };
                out.push((format!("wrong header {} {} ({})", name, dir, wrong), vec![(off, le32(wrong))], true));
            }
        }
    }
    if p.version == 3 {
        for wrong in [1u32, 7, 0xFFFF_FFFF] {
            out.push((format!("non-zero v3 directory sector count ({})", wrong), vec![(40, le32(wrong))], true));
        }
    }
    // over-long MiniFAT: a non-free cell beyond the mini stream's length
    let mini_count = (p.dir[0].size / 64) as usize;
    if !p.minifat_sectors.is_empty() && p.minifat.len() > mini_count {
        let cell_off = |k: usize| p.sector_off(p.minifat_sectors[k / cells]) + 4 * (k % cells);
        for k in [mini_count, p.minifat.len() - 1] {
            out.push((format!("over-long MiniFAT@{}", k), vec![(cell_off(k), le32(spec::ENDOFCHAIN))], true));
            // a surplus cell that names a mini sector already in use
            for v in [0u32, 1, mini_count as u32] {
                out.push((format!("over-long MiniFAT ({})@{}", v, k), vec![(cell_off(k), le32(v))], true));
            }
        }
        // the whole surplus zero-padded instead of FREESECT-padded
        let zeros: Vec<(usize, Vec<u8>)> = (mini_count..p.minifat.len()).map(|k| (cell_off(k), le32(0))).collect();
        out.push(("over-long MiniFAT (zero padded)".into(), zeros, true));
    }
    // over-long MiniFAT whose surplus lies in a MiniFAT sector of its own: a free sector at the end of the
    // file is linked behind the last MiniFAT sector (FAT, header count adjusted) and holds non-free cells
    if let (Some(&last_mf), true) = (p.minifat_sectors.last(), p.num_sectors >= 1) {
        let f = p.num_sectors - 1;
        let fat_cell_off = |sec: u32| p.fat_sectors.get(sec as usize / cells).map(|&fs| p.sector_off(fs) + 4 * (sec as usize % cells));
        if p.fat.get(f as usize) == Some(&spec::FREESECT) {
            if let (Some(o_last), Some(o_f)) = (fat_cell_off(last_mf), fat_cell_off(f)) {
                for (label, first_cell) in [("ENDOFCHAIN", spec::ENDOFCHAIN), ("0", 0u32)] {
                    let mut content = vec![0xFFu8; p.sector_len];
                    content[..4].copy_from_slice(&first_cell.to_le_bytes());
                    out.push((
                        format!("over-long MiniFAT in an extra MiniFAT sector ({})", label),
                        vec![(o_last, le32(f)), (o_f, le32(spec::ENDOFCHAIN)), (64, le32(p.hdr_num_minifat + 1)), (p.sector_off(f), content)],
                        true,
                    ));
                }
            }
        }
    }
    out
}

pub fn explore_deviations(ctx: &Ctx, version: u16, thorough: bool) -> E2Stats {
    let mut stats = E2Stats { files: 0, cases: 0, steps: 0, rb_valid: 0 };
    for cname in CONTENTS {
        let root = content(cname, version).unwrap();
        // base files: canonical, a non-canonical placement, and (v3) one with a DIFAT sector
        let base = Layout { version, free_fill: 0, ..Default::default() };
        let (lsec, _) = synth::plan(&root, &base).unwrap();
        let mut rev: Vec<u32> = (0..lsec as u32).collect();
        rev.reverse();
        // rotated by one: every logical sector moves up one place and the last one sits in sector 0, so a
        // chain through the last two logical sectors runs from the last sector of the file to sector 0
        let rot: Vec<u32> = (0..lsec as u32).map(|i| (i + 1) % lsec as u32).collect();
        let mut bases = vec![base.clone(), Layout { sector_perm: rev, trailing_free_sectors: 1, ..base.clone() }, Layout { sector_perm: rot, ..base.clone() }];
        // two FAT sectors, the one in sector 0 listed second
        {
            let two = Layout { extra_fat_sectors: 1, ..base.clone() };
            if let Ok((l2, _)) = synth::plan(&root, &two) {
                let mut p: Vec<u32> = (0..l2 as u32).collect();
                p.swap(0, 1);
                bases.push(Layout { sector_perm: p, ..two });
            }
        }
        if version == 3 && (cname == "two-mini" || cname == "three-mixed") {
            bases.push(Layout { extra_fat_sectors: 110, ..base.clone() });
        }
        // two and three DIFAT sectors (single deviations only: the pairs are covered on the base above)
        let n_pair_bases = bases.len();
        if version == 3 && cname == "two-mini" {
            bases.push(Layout { extra_fat_sectors: 109 + 128, ..base.clone() });
            bases.push(Layout { extra_fat_sectors: 109 + 2 * 127 + 3, ..base.clone() });
        }
        for (bi, layout) in bases.into_iter().enumerate() {
            let bytes = match synth::synth(&root, &layout) {
                Ok(b) => b,
                Err(e) => {
                    ctx.report(Violation { class: "machinery".into(), sig: "synth".into(), msg: e, replay: json!(null) });
                    continue;
                }
            };
            stats.files += 1;
            let devs = deviations(&bytes);
            let mut cases: Vec<LayoutCase> = devs
                .iter()
                .map(|(name, patches, smr)| LayoutCase { content: cname.to_string(), layout: layout.clone(), rb_valid: true, ops: vec![], patches: patches.clone(), deviation: name.clone(), strict_must_reject: *smr })
                .collect();
            if (thorough || lsec <= 6) && bi < n_pair_bases {
                // all pairs of deviations of different kinds
                for (i, a) in devs.iter().enumerate() {
                    for b in devs.iter().skip(i + 1) {
                        let ka = a.0.split('@').next().unwrap_or("").split(" (").next().unwrap_or("");
                        let kb = b.0.split('@').next().unwrap_or("").split(" (").next().unwrap_or("");
                        if ka == kb {
                            continue;
                        }
                        // overlapping patches would not be "both deviations"
                        let overlap = a.1.iter().any(|(oa, da)| b.1.iter().any(|(ob, db)| *oa < ob + db.len() && *ob < oa + da.len()));
                        if overlap {
                            continue;
                        }
                        let mut patches = a.1.clone();
                        patches.extend(b.1.iter().cloned());
                        cases.push(LayoutCase { content: cname.to_string(), layout: layout.clone(), rb_valid: true, ops: vec![], patches, deviation: format!("{} + {}", a.0, b.0), strict_must_reject: a.2 || b.2 });
                    }
                }
            }
            stats.cases += cases.len() as u64;
            if let Some(c) = cases.get(cases.len() / 3) {
                ctx.sample(json!({"deviation_case": {"content": c.content, "version": version, "deviation": c.deviation, "patches": c.patches.len()}}));
            }
            cases.par_iter().for_each(|c| {
                let p = run_case(c);
                report(ctx, c, p);
            });
        }
    }
    stats
}

/// C10 on non-canonical input: every refused call on every permissively
/// accepted single-deviation file must leave the bytes unchanged.
pub fn refusals_on_deviated(ctx: &Ctx, version: u16) -> E2Stats {
    let mut stats = E2Stats { files: 0, cases: 0, steps: 0, rb_valid: 0 };
    for cname in CONTENTS {
        let root = content(cname, version).unwrap();
        let layout = Layout { version, free_fill: 0, ..Default::default() };
        let bytes = match synth::synth(&root, &layout) {
            Ok(b) => b,
            Err(_) => continue,
        };
        // the refused calls this content allows
        let mut ops_: Vec<Op> = vec![Op::RemoveStream("/nope".into()), Op::SetStateBits("/nope".into(), 1), Op::SetClsid("/nope".into(), [1; 16]), Op::RemoveStorage("/".into()), Op::CreateStorage("/".into()), Op::CreateStream("/..".into())];
        for (p, k) in root.all_paths() {
            if p == "/" {
                continue;
            }
            ops_.push(Op::CreateStorage(p.clone()));
            ops_.push(Op::CreateNewStream(p.clone()));
            match k {
                Kind::Stream => {
                    ops_.push(Op::SetClsid(p.clone(), [2; 16]));
                    ops_.push(Op::RemoveStorage(p.clone()));
                    ops_.push(Op::CreateStream(format!("{}/x", p)));
                    ops_.push(Op::SetLen(format!("{}/x", p), 3));
                }
                _ => {
                    ops_.push(Op::RemoveStream(p.clone()));
                    ops_.push(Op::CreateStream(p.clone()));
                    ops_.push(Op::SetLen(p.clone(), 3));
                }
            }
        }
        let mut devs = deviations(&bytes);
        devs.push(("none".into(), vec![], false));
        stats.files += devs.len() as u64;
        let steps: u64 = devs
            .par_iter()
            .map(|(name, patches, _)| {
                let mut b = bytes.clone();
                apply_patches(&mut b, patches);
                let mut n = 0u64;
                for op in &ops_ {
                    let model = Model { root: root.clone(), pin: ops::pin_filetime() };
                    let mut r = match Runner::from_image(version, b.clone(), model) {
                        Ok(r) => r,
                        Err(_) => break, // not accepted permissively: C16's business
                    };
                    let o = Oracles { model: false, probes: false, refusal: true, spec: false, reopen: false };
                    let rep = r.step(op, &o, &[]);
                    n += 1;
                    for (class, msg) in rep.problems {
                        if class == "refusal" || class == "panic" {
                            let c = LayoutCase { content: cname.to_string(), layout: layout.clone(), rb_valid: true, ops: vec![op.clone()], patches: patches.clone(), deviation: name.clone(), strict_must_reject: false };
                            ctx.report(Violation {
                                sig: format!("{}:on-deviated-file:{}", class, sig_norm(msg.split(" (no effect").next().unwrap_or(&msg)).chars().take(80).collect::<String>()),
                                class,
                                msg: format!("{} [content {} v{} deviation '{}']", msg, cname, version, name),
                                replay: json!({"kind": "layout", "layout": c}),
                            });
                        }
                    }
                }
                n
            })
            .sum();
        stats.steps += steps;
    }
    stats
}
