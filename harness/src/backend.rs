//! S4: backends under harness control.  No code from `cfb` here.
use std::collections::BTreeMap;
use std::io::{self, Read, Seek, SeekFrom, Write};
use std::sync::{Arc, Mutex};

/// In-memory file whose bytes can be snapshotted between API calls without
/// flushing and without consuming the CompoundFile that owns a clone of it.
pub const MEMFILE_LIMIT: u64 = 128 << 20;

#[derive(Clone)]
pub struct MemFile {
    data: Arc<Mutex<Vec<u8>>>,
    pos: u64,
}

impl MemFile {
    pub fn new(bytes: Vec<u8>) -> MemFile {
        MemFile { data: Arc::new(Mutex::new(bytes)), pos: 0 }
    }
    pub fn snapshot(&self) -> Vec<u8> {
        self.data.lock().unwrap().clone()
    }
    pub fn len(&self) -> usize {
        self.data.lock().unwrap().len()
    }
    pub fn with_bytes<R>(&self, f: impl FnOnce(&[u8]) -> R) -> R {
        f(&self.data.lock().unwrap())
    }
}

impl Read for MemFile {
    fn read(&mut self, buf: &mut [u8]) -> io::Result<usize> {
        let data = self.data.lock().unwrap();
        let len = data.len() as u64;
        if self.pos >= len {
            return Ok(0);
        }
        let start = self.pos as usize;
        let n = buf.len().min(data.len() - start);
        buf[..n].copy_from_slice(&data[start..start + n]);
        self.pos += n as u64;
        Ok(n)
    }
}

impl Write for MemFile {
    fn write(&mut self, buf: &[u8]) -> io::Result<usize> {
        let mut data = self.data.lock().unwrap();
        // a backing store has a finite size: a write far beyond anything the
        // harness ever stores is refused (a defect that computes a wild file
        // offset must surface as an I/O error, not exhaust the machine)
        if self.pos.saturating_add(buf.len() as u64) > MEMFILE_LIMIT {
            return Err(io::Error::new(io::ErrorKind::Other, "memfile: size limit exceeded"));
        }
        let start = self.pos as usize;
        if start > data.len() {
            data.resize(start, 0);
        }
        let end = start + buf.len();
        if end > data.len() {
            data.resize(end, 0);
        }
        data[start..end].copy_from_slice(buf);
        self.pos = end as u64;
        Ok(buf.len())
    }
    fn flush(&mut self) -> io::Result<()> {
        Ok(())
    }
}

impl Seek for MemFile {
    fn seek(&mut self, pos: SeekFrom) -> io::Result<u64> {
        let len = self.data.lock().unwrap().len() as i128;
        let new = match pos {
            SeekFrom::Start(p) => p as i128,
            SeekFrom::End(d) => len + d as i128,
            SeekFrom::Current(d) => self.pos as i128 + d as i128,
        };
        if new < 0 || new > u64::MAX as i128 {
            return Err(io::Error::new(
                io::ErrorKind::InvalidInput,
                "memfile: seek before start",
            ));
        }
        self.pos = new as u64;
        Ok(self.pos)
    }
}

// ------------------------------------------------------------------------ //

#[derive(Clone, Copy, Debug, PartialEq, Eq, serde::Serialize, serde::Deserialize)]
pub enum CallKind {
    Read,
    Write,
    Seek,
    Flush,
}

#[derive(Clone, Copy, Debug, PartialEq, Eq, serde::Serialize, serde::Deserialize)]
pub enum Fault {
    /// The call fails with ErrorKind::Other and has no effect.
    Fail,
    /// The call fails with ErrorKind::Interrupted and has no effect.
    Interrupted,
    /// The transfer is cut to at most this many bytes (>= 1).
    Short(usize),
}

#[derive(Default)]
pub struct FaultState {
    /// number of underlying calls seen since arming
    pub count: u64,
    pub armed: bool,
    pub plan: BTreeMap<u64, Fault>,
    /// kinds of all calls since arming (only recorded when `record` is set)
    pub record: bool,
    pub log: Vec<(CallKind, u32)>,
    /// harness-set tag naming the API call in progress
    pub tag: u32,
    /// every transfer is limited to this many bytes when set
    pub chunk: Option<usize>,
    /// Interrupted on every n-th read/write call when set (n >= 2)
    pub interrupt_every: Option<u64>,
    pub transfers: u64,
    pub last_interrupted: bool,
    /// faults actually delivered: (call index, kind, tag)
    pub delivered: Vec<(u64, CallKind, u32)>,
    /// file offset at which each delivered fault struck (same order as `delivered`)
    pub delivered_pos: Vec<u64>,
    /// a write reached the backend after its last successful flush
    pub unflushed: bool,
}

#[derive(Clone)]
pub struct FaultCtl(pub Arc<Mutex<FaultState>>);

impl FaultCtl {
    pub fn new() -> FaultCtl {
        FaultCtl(Arc::new(Mutex::new(FaultState::default())))
    }
    pub fn arm(&self, plan: BTreeMap<u64, Fault>, record: bool) {
        let mut s = self.0.lock().unwrap();
        s.count = 0;
        s.transfers = 0;
        s.last_interrupted = false;
        s.armed = true;
        s.plan = plan;
        s.record = record;
        s.log.clear();
        s.delivered.clear();
        s.delivered_pos.clear();
    }
    /// Has a write reached the backend since its last successful flush?
    pub fn unflushed(&self) -> bool {
        self.0.lock().unwrap().unflushed
    }
    pub fn disarm(&self) {
        self.0.lock().unwrap().armed = false;
    }
    pub fn set_tag(&self, tag: u32) {
        self.0.lock().unwrap().tag = tag;
    }
    pub fn count(&self) -> u64 {
        self.0.lock().unwrap().count
    }
    pub fn log(&self) -> Vec<(CallKind, u32)> {
        self.0.lock().unwrap().log.clone()
    }
    pub fn delivered(&self) -> Vec<(u64, CallKind, u32)> {
        self.0.lock().unwrap().delivered.clone()
    }
    pub fn delivered_pos(&self) -> Vec<u64> {
        self.0.lock().unwrap().delivered_pos.clone()
    }
    pub fn set_chunk(&self, c: Option<usize>) {
        self.0.lock().unwrap().chunk = c;
    }
    pub fn set_interrupt_every(&self, n: Option<u64>) {
        self.0.lock().unwrap().interrupt_every = n;
    }
    /// Decides the fate of one underlying call.
    fn decide(&self, kind: CallKind, pos: u64) -> (Option<Fault>, Option<usize>) {
        let mut s = self.0.lock().unwrap();
        let chunk = s.chunk;
        if !s.armed {
            return (None, chunk);
        }
        let idx = s.count;
        s.count += 1;
        if s.record {
            let tag = s.tag;
            s.log.push((kind, tag));
        }
        let mut fault = s.plan.get(&idx).copied();
        if fault.is_none() && (kind == CallKind::Read || kind == CallKind::Write) {
            if let Some(n) = s.interrupt_every {
                // counted over transfers only, and never twice in a row: an
                // interrupted call must succeed when it is retried
                let t = s.transfers;
                s.transfers += 1;
                if t % n == n - 1 && !s.last_interrupted {
                    fault = Some(Fault::Interrupted);
                    s.last_interrupted = true;
                } else {
                    s.last_interrupted = false;
                }
            }
        }
        if let Some(f) = fault {
            let tag = s.tag;
            if !matches!(f, Fault::Short(_)) || kind == CallKind::Read || kind == CallKind::Write {
                s.delivered.push((idx, kind, tag));
                s.delivered_pos.push(pos);
            }
        }
        (fault, chunk)
    }
}

/// Wraps any backend; every underlying call is counted and may be made to
/// fail / be interrupted / be short according to the plan.
pub struct FaultFile<F> {
    pub inner: F,
    pub ctl: FaultCtl,
}

impl<F> FaultFile<F> {
    pub fn new(inner: F, ctl: FaultCtl) -> FaultFile<F> {
        FaultFile { inner, ctl }
    }
}

fn fail() -> io::Error {
    io::Error::new(io::ErrorKind::Other, "injected fault")
}
fn interrupted() -> io::Error {
    io::Error::new(io::ErrorKind::Interrupted, "injected interrupt")
}

/// Backends that can tell their current offset without I/O.
pub trait HasPos {
    fn position(&self) -> u64;
}
impl HasPos for MemFile {
    fn position(&self) -> u64 {
        self.pos
    }
}

impl<F: Read + HasPos> Read for FaultFile<F> {
    fn read(&mut self, buf: &mut [u8]) -> io::Result<usize> {
        let (fault, chunk) = self.ctl.decide(CallKind::Read, self.inner.position());
        let mut limit = buf.len();
        if let Some(c) = chunk {
            limit = limit.min(c.max(1));
        }
        match fault {
            Some(Fault::Fail) => return Err(fail()),
            Some(Fault::Interrupted) => return Err(interrupted()),
            Some(Fault::Short(c)) => limit = limit.min(c.max(1)),
            None => {}
        }
        self.inner.read(&mut buf[..limit])
    }
}

impl<F: Write + HasPos> Write for FaultFile<F> {
    fn write(&mut self, buf: &[u8]) -> io::Result<usize> {
        let (fault, chunk) = self.ctl.decide(CallKind::Write, self.inner.position());
        let mut limit = buf.len();
        if let Some(c) = chunk {
            limit = limit.min(c.max(1));
        }
        match fault {
            Some(Fault::Fail) => return Err(fail()),
            Some(Fault::Interrupted) => return Err(interrupted()),
            Some(Fault::Short(c)) => limit = limit.min(c.max(1)),
            None => {}
        }
        let r = self.inner.write(&buf[..limit]);
        if matches!(r, Ok(n) if n > 0) {
            self.ctl.0.lock().unwrap().unflushed = true;
        }
        r
    }
    fn flush(&mut self) -> io::Result<()> {
        let (fault, _) = self.ctl.decide(CallKind::Flush, self.inner.position());
        match fault {
            Some(Fault::Fail) => Err(fail()),
            _ => {
                let r = self.inner.flush();
                if r.is_ok() {
                    self.ctl.0.lock().unwrap().unflushed = false;
                }
                r
            }
        }
    }
}

impl<F: Seek + HasPos> Seek for FaultFile<F> {
    fn seek(&mut self, pos: SeekFrom) -> io::Result<u64> {
        // the site of a seek is its target
        let target = match pos {
            SeekFrom::Start(p) => p,
            SeekFrom::Current(d) => (self.inner.position() as i128 + d as i128).max(0) as u64,
            SeekFrom::End(_) => u64::MAX,
        };
        let (fault, _) = self.ctl.decide(CallKind::Seek, target);
        match fault {
            Some(Fault::Fail) => Err(fail()),
            Some(Fault::Interrupted) => Err(interrupted()),
            _ => self.inner.seek(pos),
        }
    }
}
