//! E1h: stream handles held across structural mutation (C07).
//! Start states: every image the library can produce from create/remove of a
//! few sibling streams (all sibling-tree shapes x directory slot assignments);
//! handles are opened on every choice of <= 2 streams; then every sequence of
//! handle operations interleaved with structural mutations of other entries.
use crate::ops::{self, guarded, Live, Op};
use crate::refmodel::{Kind, Model, Outcome};
use crate::report::{key128, sig_norm, Ctx, Violation};
use crate::runner::{Oracles, Runner};
use crate::spec;
use rayon::prelude::*;
use serde::{Deserialize, Serialize};
use serde_json::json;
use std::collections::HashSet;
use std::io::{Read, Seek, SeekFrom, Write};

#[derive(Clone, Debug, PartialEq, Eq, Serialize, Deserialize)]
pub enum HAct {
    /// seek(Start(0)) + write_all(n bytes), not flushed
    WriteAt0(usize, usize),
    /// seek(End(0)) + write_all(n bytes), not flushed
    Append(usize, usize),
    Flush(usize),
    SetLen(usize, u64),
    /// seek(Start(0)) + read_to_end, compared with the handle's view
    ReadAll(usize),
    /// a structural operation on the compound file
    Comp(Op),
    /// flush and drop the handle, then open_stream(same path) again: Ok and bound to the stream the
    /// model has at that path, or NotFound if it has none
    Reopen(usize),
}

#[derive(Clone, Debug, Serialize, Deserialize)]
pub struct HandleHist {
    pub version: u16,
    pub setup: Vec<Op>,
    pub held: Vec<String>,
    pub actions: Vec<HAct>,
    /// which content sizes the streams get before the handles are opened (see fill_size)
    #[serde(default)]
    pub fill: u8,
}

pub struct StartState {
    pub setup: Vec<Op>,
    pub streams: Vec<String>,
}

/// All distinct images reachable by create_stream/remove_stream (+ one
/// storage) over `names`, as op histories (BFS, shortest history per image).
pub fn start_states(version: u16, names: &[&str]) -> Vec<StartState> {
    let mut ops_: Vec<Op> = Vec::new();
    for n in names {
        ops_.push(Op::CreateStream(format!("/{}", n)));
        ops_.push(Op::RemoveStream(format!("/{}", n)));
    }
    let mut seen: HashSet<(u64, u64)> = HashSet::new();
    let mut out: Vec<StartState> = Vec::new();
    let mut frontier: Vec<Vec<Op>> = vec![vec![]];
    let root = Runner::fresh(version).expect("fresh");
    seen.insert(key128(version, &root.snapshot(), &[]));
    while !frontier.is_empty() {
        let mut next = Vec::new();
        for h in &frontier {
            for op in &ops_ {
                let mut hist = h.clone();
                hist.push(op.clone());
                let mut r = Runner::fresh(version).expect("fresh");
                let mut ok = true;
                for o in &hist {
                    let rep = r.step(o, &Oracles::LIGHT, &[]);
                    if !rep.problems.is_empty() || !rep.outcome.is_ok() {
                        ok = false;
                        break;
                    }
                }
                if !ok {
                    continue;
                }
                if seen.insert(key128(version, &r.snapshot(), &[])) {
                    let streams: Vec<String> = r.model.root.all_paths().into_iter().filter(|(_, k)| *k == Kind::Stream).map(|(p, _)| p).collect();
                    out.push(StartState { setup: hist.clone(), streams });
                    next.push(hist);
                }
            }
        }
        frontier = next;
    }
    out
}

/// fill 0: two mini streams and a regular one; fill 1: sizes on both sides of the 4096-byte
/// cutoff (a mini stream that fills 64 mini sectors, a regular stream of exactly 4096 bytes).
fn fill_size(path: &str, fill: u8) -> usize {
    match (fill, path) {
        (1, "/a") => 4095,
        (1, "/b") => 4096,
        (1, "/c") => 64,
        // fill 2: every stream occupies exactly one mini sector
        (2, _) => 64,
        (_, "/a") => 300,
        (_, "/b") => 5000,
        (_, "/c") => 200,
        (_, "/d") => 0,
        _ => 100,
    }
}

struct H {
    s: ops::NoDropOnPanic<cfb::Stream<crate::backend::MemFile>>,
    path: String,
    dirty: bool,
    /// the handle's stream has been removed: whatever the handle's calls return from then on is
    /// accepted (Ok or Err), but they must not change anything else
    dead: bool,
}

/// Runs one handle history; returns the first problem (class, msg).
pub fn run_case(c: &HandleHist) -> Option<(String, String)> {
    let mut r = match Runner::fresh(c.version) {
        Ok(r) => r,
        Err(e) => return Some(("machinery".into(), e)),
    };
    for op in &c.setup {
        let rep = r.step(op, &Oracles::LIGHT, &[]);
        if !rep.problems.is_empty() {
            return None; // setup failures are C01's business
        }
    }
    // give every stream distinct content (does not change slots or shapes)
    let streams: Vec<String> = r.model.root.all_paths().into_iter().filter(|(_, k)| *k == Kind::Stream).map(|(p, _)| p).collect();
    for p in &streams {
        if c.fill == 3 {
            break; // fill 3: the setup history has given every stream its content already
        }
        let rep = r.step(&Op::Rewrite(p.clone(), fill_size(p, c.fill)), &Oracles::LIGHT, &[]);
        if !rep.problems.is_empty() {
            return None;
        }
    }
    let Runner { live, model, .. } = r;
    let mut live: Live = live;
    let mut model: Model = model;
    let res = guarded(|| -> Result<(), (String, String)> {
        let mut hs: Vec<H> = Vec::new();
        for p in &c.held {
            let s = live.comp.open_stream(p).map_err(|e| ("machinery".to_string(), format!("open_stream({}): {}", p, e)))?;
            hs.push(H { s: ops::NoDropOnPanic::new(s), path: p.clone(), dirty: false, dead: false });
        }
        for (i, act) in c.actions.iter().enumerate() {
            let bad = |m: String| ("handle".to_string(), format!("action {} {:?}: {}", i, act, m));
            // calls on a handle whose stream was removed: results are not judged, effects on others are
            let target = match act {
                HAct::WriteAt0(h, _) | HAct::Append(h, _) | HAct::Flush(h) | HAct::SetLen(h, _) | HAct::ReadAll(h) => Some(*h),
                HAct::Comp(_) | HAct::Reopen(_) => None,
            };
            if let Some(h) = target {
                if hs[h].dead {
                    let hd = &mut hs[h];
                    match act {
                        HAct::WriteAt0(_, n) | HAct::Append(_, n) => {
                            let data = ops::pattern(ops::seed_of(&hd.path, *n as u64, 50 + i as u64), *n);
                            if hd.s.seek(if matches!(act, HAct::Append(..)) { SeekFrom::End(0) } else { SeekFrom::Start(0) }).is_ok() {
                                let _ = hd.s.write_all(&data);
                            }
                        }
                        HAct::Flush(_) => {
                            let _ = hd.s.flush();
                        }
                        HAct::SetLen(_, n) => {
                            let _ = hd.s.set_len(*n);
                        }
                        _ => {
                            let mut sink = Vec::new();
                            if hd.s.seek(SeekFrom::Start(0)).is_ok() {
                                let _ = hd.s.read_to_end(&mut sink);
                            }
                        }
                    }
                    continue;
                }
            }
            match act {
                HAct::WriteAt0(h, n) | HAct::Append(h, n) => {
                    let hd = &mut hs[*h];
                    let data = ops::pattern(ops::seed_of(&hd.path, *n as u64, 50 + i as u64), *n);
                    let at_end = matches!(act, HAct::Append(..));
                    hd.s.seek(if at_end { SeekFrom::End(0) } else { SeekFrom::Start(0) }).map_err(|e| bad(format!("seek failed: {}", e)))?;
                    hd.s.write_all(&data).map_err(|e| bad(format!("write failed: {}", e)))?;
                    hd.dirty = true;
                    let node = model.stream_mut(&hd.path).ok_or_else(|| bad("model lost the held stream".into()))?;
                    if at_end {
                        node.data.extend_from_slice(&data);
                    } else {
                        if node.data.len() < data.len() {
                            node.data.resize(data.len(), 0);
                        }
                        node.data[..data.len()].copy_from_slice(&data);
                    }
                }
                HAct::Flush(h) => {
                    let hd = &mut hs[*h];
                    hd.s.flush().map_err(|e| bad(format!("flush failed: {}", e)))?;
                    hd.dirty = false;
                }
                HAct::SetLen(h, n) => {
                    let hd = &mut hs[*h];
                    hd.s.set_len(*n).map_err(|e| bad(format!("set_len failed: {}", e)))?;
                    hd.dirty = false;
                    model.stream_mut(&hd.path).ok_or_else(|| bad("model lost the held stream".into()))?.data.resize(*n as usize, 0);
                }
                HAct::ReadAll(h) => {
                    let hd = &mut hs[*h];
                    hd.s.seek(SeekFrom::Start(0)).map_err(|e| bad(format!("seek failed: {}", e)))?;
                    let mut got = Vec::new();
                    hd.s.read_to_end(&mut got).map_err(|e| bad(format!("read failed: {}", e)))?;
                    let want = &model.root.find(&crate::names::normalise(&hd.path).unwrap()).ok_or_else(|| bad("model lost the held stream".into()))?.data;
                    if &got != want {
                        let d = got.iter().zip(want.iter()).position(|(a, b)| a != b);
                        return Err(bad(format!("handle on {} reads {} bytes, its stream holds {} (first diff {:?})", hd.path, got.len(), want.len(), d)));
                    }
                    if hd.s.len() != want.len() as u64 {
                        return Err(bad(format!("handle len() {} but stream holds {}", hd.s.len(), want.len())));
                    }
                }
                HAct::Reopen(h) => {
                    let path = hs[*h].path.clone();
                    if hs[*h].dead {
                        let _ = hs[*h].s.flush();
                    } else {
                        hs[*h].s.flush().map_err(|e| bad(format!("flush before reopening failed: {}", e)))?;
                    }
                    let exists = crate::names::normalise(&path).ok().and_then(|p| model.root.find(&p)).map(|n| n.kind == Kind::Stream).unwrap_or(false);
                    match live.comp.open_stream(&path) {
                        Ok(snew) => {
                            if !exists {
                                return Err(bad(format!("open_stream({}) returned Ok although no stream exists at that path", path)));
                            }
                            hs[*h] = H { s: ops::NoDropOnPanic::new(snew), path, dirty: false, dead: false };
                        }
                        Err(e) => {
                            if exists {
                                return Err(bad(format!("open_stream({}) failed: {}", path, e)));
                            }
                        }
                    }
                }
                HAct::Comp(op) => {
                    // overwriting a stream that a live handle is open on is the business of two handles on
                    // one stream, which the property does not speak about: skipped
                    if let Op::Rewrite(q, _) | Op::CreateStream(q) = op {
                        if hs.iter().any(|hd| !hd.dead && &hd.path == q) {
                            continue;
                        }
                    }
                    let st = ops::exec(&mut live.comp, op, &mut model);
                    if let Op::RemoveStream(q) = op {
                        if st.outcome.is_ok() {
                            for hd in hs.iter_mut() {
                                if &hd.path == q {
                                    hd.dead = true;
                                }
                            }
                        }
                    }
                    if let Outcome::Panic(p) = &st.outcome {
                        return Err(("panic".into(), format!("action {} {:?} panicked: {}", i, act, p)));
                    }
                    if let Err(m) = st.verdict {
                        return Err(("handle".into(), format!("action {} {:?}: {}", i, act, m)));
                    }
                }
            }
        }
        // forced quiescent point: flush every handle, then judge everything
        for hd in hs.iter_mut() {
            if hd.dead {
                let _ = hd.s.flush();
                continue;
            }
            hd.s.flush().map_err(|e| ("handle".to_string(), format!("final flush of handle on {} failed: {}", hd.path, e)))?;
        }
        let want = model.root.dump();
        let got = ops::dump_real(&mut live.comp).map_err(|e| (if e.contains("PANIC") { "panic".to_string() } else { "handle".to_string() }, format!("dump at the quiescent point failed: {}", e)))?;
        if let Some(d) = want.diff(&got) {
            return Err(("handle".into(), format!("at the quiescent point the file differs from the model: {}", d)));
        }
        // the handles still work after everything
        for hd in hs.iter_mut() {
            if hd.dead {
                continue;
            }
            hd.s.seek(SeekFrom::Start(0)).map_err(|e| ("handle".to_string(), format!("seek on handle {} failed: {}", hd.path, e)))?;
            let mut got = Vec::new();
            hd.s.read_to_end(&mut got).map_err(|e| ("handle".to_string(), format!("read on handle {} failed: {}", hd.path, e)))?;
            let want = &model.root.find(&crate::names::normalise(&hd.path).unwrap()).unwrap().data;
            if &got != want {
                return Err(("handle".into(), format!("after the history the handle on {} reads {} bytes, its stream holds {}", hd.path, got.len(), want.len())));
            }
        }
        drop(hs);
        let image = live.snapshot();
        match spec::parse(&image) {
            Err(e) => return Err(("handle".into(), format!("image not navigable after the history: {}", e))),
            Ok(p) => {
                let errs = spec::check(&p, &image);
                if let Some(f) = errs.first() {
                    return Err(("handle".into(), format!("independent checker after the history: {}", f)));
                }
                match spec::logical(&p, &image) {
                    Ok(tree) => {
                        if let Some(d) = want.diff(&tree.dump()) {
                            return Err(("handle".into(), format!("independent parse differs from the model: {}", d)));
                        }
                    }
                    Err(e) => return Err(("handle".into(), format!("independent parse failed: {}", e))),
                }
            }
        }
        match Live::open(image, true) {
            Err(e) => return Err(("handle".into(), format!("strict reopen after the history failed: {}", e))),
            Ok(mut l2) => {
                let d2 = ops::dump_real(&mut l2.comp).map_err(|e| ("handle".to_string(), e))?;
                if let Some(d) = want.diff(&d2) {
                    return Err(("handle".into(), format!("reopened file differs from the model: {}", d)));
                }
            }
        }
        Ok(())
    });
    match res {
        Ok(Ok(())) => None,
        Ok(Err(p)) => Some(p),
        Err(p) => Some(("panic".into(), format!("handle history panicked: {}", p))),
    }
}

pub fn alphabet(held: &[String], streams: &[String], rich: bool) -> Vec<HAct> {
    let mut v = Vec::new();
    for h in 0..held.len() {
        v.push(HAct::WriteAt0(h, 10));
        v.push(HAct::Append(h, 4100));
        v.push(HAct::Flush(h));
        v.push(HAct::SetLen(h, 100));
        v.push(HAct::SetLen(h, 10));
        v.push(HAct::ReadAll(h));
        if rich {
            v.push(HAct::WriteAt0(h, 5000));
            v.push(HAct::SetLen(h, 0));
            v.push(HAct::SetLen(h, 4096));
        }
    }
    for q in streams {
        if !held.contains(q) {
            v.push(HAct::Comp(Op::RemoveStream(q.clone())));
            v.push(HAct::Comp(Op::Rewrite(q.clone(), 70)));
            if rich {
                v.push(HAct::Comp(Op::Rewrite(q.clone(), 4200)));
            }
        }
    }
    v.push(HAct::Comp(Op::CreateStream("/e".into())));
    v.push(HAct::Comp(Op::Rewrite("/bb".into(), 33)));
    v.push(HAct::Comp(Op::CreateStorage("/g".into())));
    if rich {
        v.push(HAct::Comp(Op::RemoveStorage("/g".into())));
        v.push(HAct::Comp(Op::RemoveStream("/e".into())));
    }
    v
}

/// Handles on ALL of n one-mini-sector streams; every sequence up to the depth over
/// {set_len(0), append 128 bytes, flush} per handle: every order in which mini sectors are
/// released (tail trimmed or not) and taken again through different handles.
pub fn explore_many(ctx: &Ctx, version: u16, names: &[&str], depth: usize) -> HStats {
    let setup: Vec<Op> = names.iter().map(|n| Op::CreateStream(format!("/{}", n))).collect();
    let held: Vec<String> = names.iter().map(|n| format!("/{}", n)).collect();
    let st = StartState { setup, streams: held.clone() };
    let mut alpha = Vec::new();
    for h in 0..held.len() {
        alpha.push(HAct::SetLen(h, 0));
        alpha.push(HAct::Append(h, 128));
        alpha.push(HAct::Flush(h));
    }
    let counts: Vec<(u64, u64)> = alpha
        .par_iter()
        .map(|first| {
            let mut cnt = (0u64, 0u64);
            let mut seq = vec![first.clone()];
            let case = HandleHist { version, setup: st.setup.clone(), held: held.clone(), actions: seq.clone(), fill: 2 };
            cnt.0 += 1;
            cnt.1 += 1;
            match run_case(&case) {
                Some((class, msg)) => {
                    let core = msg.splitn(2, ": ").nth(1).unwrap_or(&msg).to_string();
                    ctx.report(Violation { sig: format!("{}:{}", class, sig_norm(&core).chars().take(90).collect::<String>()), class, msg, replay: json!({"kind": "handles", "handles": case}) });
                }
                None => {
                    if depth > 1 {
                        rec(ctx, version, &st, &held, &alpha, &mut seq, depth, &mut cnt, 2);
                    }
                }
            }
            cnt
        })
        .collect();
    let mut stats = HStats { start_states: 1, handle_choices: 1, sequences: 0, actions: 0 };
    for (a, b) in counts {
        stats.sequences += a;
        stats.actions += b;
    }
    stats
}

/// Handles on /a (300 bytes) and /b (5000 bytes) in a file built by a growth seed (one allocation
/// short of a new FAT / DIFAT / directory / MiniFAT sector): every sequence up to the depth over
/// appends of `big` bytes through either handle (each forces new allocation-table sectors), flushes,
/// and a third stream written through the compound file in between.
pub fn explore_seeded(ctx: &Ctx, version: u16, seed: &str, big: usize, depth: usize) -> HStats {
    let mut setup = match crate::seeds::seed_ops(seed) {
        Ok(o) => o,
        Err(e) => {
            ctx.report(Violation { sig: "machinery:bad-seed".into(), class: "machinery".into(), msg: e, replay: json!({}) });
            return HStats { start_states: 0, handle_choices: 0, sequences: 0, actions: 0 };
        }
    };
    setup.push(Op::Rewrite("/a".into(), 300));
    setup.push(Op::Rewrite("/b".into(), 5000));
    let held: Vec<String> = vec!["/a".into(), "/b".into()];
    let st = StartState { setup, streams: held.clone() };
    let alpha = vec![
        HAct::Append(0, big),
        HAct::Append(1, big),
        HAct::Flush(0),
        HAct::Flush(1),
        HAct::WriteAt0(0, 10),
        HAct::Comp(Op::Rewrite("/c".into(), big)),
        HAct::Comp(Op::CreateStream("/e".into())),
    ];
    let counts: Vec<(u64, u64)> = alpha
        .par_iter()
        .map(|first| {
            let mut cnt = (1u64, 1u64);
            let mut seq = vec![first.clone()];
            let case = HandleHist { version, setup: st.setup.clone(), held: held.clone(), actions: seq.clone(), fill: 3 };
            match run_case(&case) {
                Some((class, msg)) => {
                    let core = msg.splitn(2, ": ").nth(1).unwrap_or(&msg).to_string();
                    ctx.report(Violation { sig: format!("{}:{}", class, sig_norm(&core).chars().take(90).collect::<String>()), class, msg, replay: json!({"kind": "handles", "handles": case}) });
                }
                None => {
                    if depth > 1 {
                        rec(ctx, version, &st, &held, &alpha, &mut seq, depth, &mut cnt, 3);
                    }
                }
            }
            cnt
        })
        .collect();
    let mut stats = HStats { start_states: 1, handle_choices: 1, sequences: 0, actions: 0 };
    for (a, b) in counts {
        stats.sequences += a;
        stats.actions += b;
    }
    stats
}

/// Equal leaf names under two parents, with handles re-opened by path in the middle of the history:
/// a directory entry stores only the leaf name, and freed entries are reused.
pub fn explore_namesakes(ctx: &Ctx, version: u16, depth: usize) -> HStats {
    let setup: Vec<Op> = vec![Op::CreateStorage("/p".into()), Op::CreateStorage("/q".into()), Op::CreateStream("/p/data".into()), Op::CreateStream("/c".into())];
    let held: Vec<String> = vec!["/p/data".into(), "/c".into()];
    let st = StartState { setup, streams: vec!["/p/data".into(), "/c".into()] };
    let alpha = vec![
        HAct::WriteAt0(0, 10),
        HAct::Flush(0),
        HAct::Reopen(0),
        HAct::WriteAt0(1, 10),
        HAct::Comp(Op::RemoveStream("/p/data".into())),
        HAct::Comp(Op::Rewrite("/q/data".into(), 50)),
        HAct::Comp(Op::Rewrite("/p/data".into(), 70)),
        HAct::Comp(Op::RemoveStream("/q/data".into())),
    ];
    let counts: Vec<(u64, u64)> = alpha
        .par_iter()
        .map(|first| {
            let mut cnt = (1u64, 1u64);
            let mut seq = vec![first.clone()];
            let case = HandleHist { version, setup: st.setup.clone(), held: held.clone(), actions: seq.clone(), fill: 0 };
            match run_case(&case) {
                Some((class, msg)) => {
                    let core = msg.splitn(2, ": ").nth(1).unwrap_or(&msg).to_string();
                    ctx.report(Violation { sig: format!("{}:{}", class, sig_norm(&core).chars().take(90).collect::<String>()), class, msg, replay: json!({"kind": "handles", "handles": case}) });
                }
                None => {
                    if depth > 1 {
                        rec(ctx, version, &st, &held, &alpha, &mut seq, depth, &mut cnt, 0);
                    }
                }
            }
            cnt
        })
        .collect();
    let mut stats = HStats { start_states: 1, handle_choices: 1, sequences: 0, actions: 0 };
    for (a, b) in counts {
        stats.sequences += a;
        stats.actions += b;
    }
    stats
}

/// Handles that outlive their stream: the held stream itself may be removed (and its name or its
/// directory slot taken by a new object) while the handle still has buffered data; whatever the
/// stale handle's calls return, no other object may change.
pub fn explore_stale(ctx: &Ctx, version: u16, depth: usize) -> HStats {
    let setup: Vec<Op> = vec![Op::CreateStream("/a".into()), Op::CreateStream("/b".into()), Op::CreateStream("/c".into())];
    let held: Vec<String> = vec!["/a".into(), "/b".into()];
    let st = StartState { setup, streams: vec!["/a".into(), "/b".into(), "/c".into()] };
    let alpha = vec![
        HAct::WriteAt0(0, 10),
        HAct::Append(0, 4100),
        HAct::Flush(0),
        HAct::SetLen(0, 10),
        HAct::WriteAt0(1, 10),
        HAct::Flush(1),
        HAct::Comp(Op::RemoveStream("/a".into())),
        HAct::Comp(Op::RemoveStream("/c".into())),
        HAct::Comp(Op::Rewrite("/new".into(), 50)),
        HAct::Comp(Op::Rewrite("/a".into(), 4200)),
        HAct::Comp(Op::CreateStorage("/g".into())),
    ];
    let counts: Vec<(u64, u64)> = alpha
        .par_iter()
        .map(|first| {
            let mut cnt = (1u64, 1u64);
            let mut seq = vec![first.clone()];
            let case = HandleHist { version, setup: st.setup.clone(), held: held.clone(), actions: seq.clone(), fill: 0 };
            match run_case(&case) {
                Some((class, msg)) => {
                    let core = msg.splitn(2, ": ").nth(1).unwrap_or(&msg).to_string();
                    ctx.report(Violation { sig: format!("{}:{}", class, sig_norm(&core).chars().take(90).collect::<String>()), class, msg, replay: json!({"kind": "handles", "handles": case}) });
                }
                None => {
                    if depth > 1 {
                        rec(ctx, version, &st, &held, &alpha, &mut seq, depth, &mut cnt, 0);
                    }
                }
            }
            cnt
        })
        .collect();
    let mut stats = HStats { start_states: 1, handle_choices: 1, sequences: 0, actions: 0 };
    for (a, b) in counts {
        stats.sequences += a;
        stats.actions += b;
    }
    stats
}

pub struct HStats {
    pub start_states: u64,
    pub handle_choices: u64,
    pub sequences: u64,
    pub actions: u64,
}

pub fn explore(ctx: &Ctx, version: u16, names: &[&str], depth: usize, rich: bool, max_handles: usize, fill: u8) -> HStats {
    let states = start_states(version, names);
    let mut stats = HStats { start_states: states.len() as u64, handle_choices: 0, sequences: 0, actions: 0 };
    // (state, held) work items
    let mut work: Vec<(usize, Vec<String>)> = Vec::new();
    for (si, st) in states.iter().enumerate() {
        for a in &st.streams {
            work.push((si, vec![a.clone()]));
            if max_handles >= 2 {
                for b in &st.streams {
                    if a < b {
                        work.push((si, vec![a.clone(), b.clone()]));
                    }
                }
            }
        }
    }
    stats.handle_choices = work.len() as u64;
    let counts: Vec<(u64, u64)> = work
        .par_iter()
        .map(|(si, held)| {
            let st = &states[*si];
            let alpha = alphabet(held, &st.streams, rich);
            let mut cnt = (0u64, 0u64);
            let mut seq: Vec<HAct> = Vec::new();
            rec(ctx, version, st, held, &alpha, &mut seq, depth, &mut cnt, fill);
            cnt
        })
        .collect();
    for (a, b) in counts {
        stats.sequences += a;
        stats.actions += b;
    }
    if let Some(st) = states.iter().find(|s| s.streams.len() >= 3) {
        ctx.sample(json!({"handle_history": HandleHist { version, setup: st.setup.clone(), held: vec![st.streams[0].clone()], actions: vec![HAct::Comp(Op::RemoveStream(st.streams[1].clone())), HAct::WriteAt0(0, 10), HAct::Flush(0)], fill }}));
    }
    stats
}

fn rec(ctx: &Ctx, version: u16, st: &StartState, held: &[String], alpha: &[HAct], seq: &mut Vec<HAct>, depth: usize, cnt: &mut (u64, u64), fill: u8) {
    for a in alpha {
        seq.push(a.clone());
        let case = HandleHist { version, setup: st.setup.clone(), held: held.to_vec(), actions: seq.clone(), fill };
        cnt.0 += 1;
        cnt.1 += seq.len() as u64;
        let mut extend = seq.len() < depth;
        if let Some((class, msg)) = run_case(&case) {
            extend = false;
            let core = msg.splitn(2, ": ").nth(1).unwrap_or(&msg).to_string();
            // identity: what failed, and whether the held stream's directory entry had been relocated
            ctx.report(Violation { sig: format!("{}:{}", class, sig_norm(&core).chars().take(90).collect::<String>()), class, msg, replay: json!({"kind": "handles", "handles": case}) });
        }
        if extend {
            rec(ctx, version, st, held, alpha, seq, depth, cnt, fill);
        }
        seq.pop();
    }
}
