//! Shared step executor with the E1 oracles (C01/C02/C03/C08/C10 classes).
use crate::names;
use crate::ops::{self, Live, Op};
use crate::refmodel::{Dump, Model, Outcome};
use crate::report::{sig_norm, Violation};
use crate::spec;
use serde::{Deserialize, Serialize};
use serde_json::json;

#[derive(Clone, Copy, Debug)]
pub struct Oracles {
    /// outcome and live dump agree with the model (class "model")
    pub model: bool,
    /// lookup-style probes agree with the model (class "model")
    pub probes: bool,
    /// refused calls leave the image unchanged (class "refusal")
    pub refusal: bool,
    /// independent structural check of the snapshot (class "spec")
    pub spec: bool,
    /// snapshot reopens (both modes) to the live view; independent parse
    /// agrees (class "reopen")
    pub reopen: bool,
}

impl Oracles {
    pub const ALL: Oracles = Oracles { model: true, probes: true, refusal: true, spec: true, reopen: true };
    pub const LIGHT: Oracles = Oracles { model: false, probes: false, refusal: false, spec: false, reopen: false };
}

/// A replayable history: start at a named seed, run ops, reopening the byte
/// image (without flush) after the ops flagged in `reopen_after`.
#[derive(Clone, Debug, Serialize, Deserialize, PartialEq, Eq)]
pub struct History {
    pub version: u16,
    pub seed: String,
    pub ops: Vec<Op>,
    pub reopen_after: Vec<bool>,
}

impl History {
    pub fn to_json(&self) -> serde_json::Value {
        json!({"kind": "history", "history": self})
    }
}

pub struct Runner {
    pub live: Live,
    pub model: Model,
    pub version: u16,
    /// set when the model no longer knows the state
    pub desync: bool,
    pub poisoned: bool,
}

pub struct StepReport {
    pub outcome: Outcome,
    /// (class, message)
    pub problems: Vec<(String, String)>,
}

impl Runner {
    pub fn fresh(version: u16) -> Result<Runner, String> {
        Ok(Runner { live: Live::create(version)?, model: Model::new(ops::pin_filetime()), version, desync: false, poisoned: false })
    }
    pub fn from_image(version: u16, image: Vec<u8>, model: Model) -> Result<Runner, String> {
        Ok(Runner { live: Live::open(image, false)?, model, version, desync: false, poisoned: false })
    }
    pub fn snapshot(&self) -> Vec<u8> {
        self.live.snapshot()
    }
    /// Drops the live object (as a crash would) and reopens the bytes.
    pub fn reopen(&mut self) -> Result<(), String> {
        let image = self.live.snapshot();
        self.live = Live::open(image, false)?;
        Ok(())
    }

    pub fn probe_paths(&self, extra: &[String]) -> Vec<(String, bool)> {
        let mut out: Vec<(String, bool)> = Vec::new();
        for (p, _) in self.model.root.all_paths() {
            out.push((p.clone(), true));
            // case variants of the last component
            if let Some(idx) = p.rfind('/') {
                let (dir, name) = p.split_at(idx + 1);
                for v in names::case_variants(name) {
                    out.push((format!("{}{}", dir, v), false));
                }
            }
        }
        for e in extra {
            if !out.iter().any(|(p, _)| p == e) {
                out.push((e.clone(), false));
            }
        }
        out
    }

    pub fn step(&mut self, op: &Op, o: &Oracles, extra_paths: &[String]) -> StepReport {
        let mut problems: Vec<(String, String)> = Vec::new();
        let before = if o.refusal { Some(self.live.snapshot()) } else { None };
        let st = ops::exec(&mut self.live.comp, op, &mut self.model);
        if let Outcome::Panic(p) = &st.outcome {
            problems.push(("panic".into(), format!("{} panicked: {}", op_kind(op), p)));
            self.poisoned = true;
            self.desync = true;
            return StepReport { outcome: st.outcome, problems };
        }
        if let Err(msg) = &st.verdict {
            if msg.contains("PANIC") {
                problems.push(("panic".into(), format!("{}: {}", op_kind(op), msg)));
                self.poisoned = true;
            } else {
                problems.push(("model".into(), format!("{}: {}", op_kind(op), msg)));
                // a refusal the model did not expect is still a refusal: it must not have changed the bytes
                if let (Some(before), true) = (&before, st.outcome.is_refusal()) {
                    let after = self.live.snapshot();
                    if &after != before {
                        problems.push(("refusal".into(), format!("{} returned {} (no effect expected) but changed the image (len {} -> {})", op_kind(op), st.outcome.short(), before.len(), after.len())));
                    }
                }
            }
            self.desync = true;
            return StepReport { outcome: st.outcome, problems };
        }
        if let Some(before) = before {
            // time setters must leave a stream entry untouched (C17)
            let noop_on_stream = match op {
                Op::SetCreated(p, _) | Op::SetModified(p, _) | Op::Touch(p) => self.model.lookup(p).ok().flatten().map(|(n, _)| n.kind == crate::refmodel::Kind::Stream).unwrap_or(false),
                _ => false,
            };
            if st.outcome.is_refusal() || (noop_on_stream && st.outcome.is_ok()) {
                let after = self.live.snapshot();
                if after != before {
                    let pos = before.iter().zip(after.iter()).position(|(a, b)| a != b);
                    problems.push((
                        "refusal".into(),
                        format!(
                            "{} returned {} (no effect expected) but changed the image (len {} -> {}, first diff at {:?})",
                            op_kind(op),
                            st.outcome.short(),
                            before.len(),
                            after.len(),
                            pos
                        ),
                    ));
                }
            }
        }
        let mut live_dump: Option<Dump> = None;
        if o.model || o.reopen {
            match ops::dump_real(&mut self.live.comp) {
                Ok(d) => live_dump = Some(d),
                Err(msg) => {
                    let class = if msg.contains("PANIC") { "panic" } else { "model" };
                    problems.push((class.into(), format!("after {}: live dump failed: {}", op_kind(op), msg)));
                    self.desync = true;
                    if class == "panic" || !o.spec {
                        return StepReport { outcome: st.outcome, problems };
                    }
                    // the operation itself succeeded: the image it left is still judged by the independent checker
                }
            }
        }
        if let (true, Some(ld)) = (o.model, live_dump.as_ref()) {
            let want = self.model.root.dump();
            if let Some(d) = want.diff(ld) {
                problems.push(("model".into(), format!("after {}: model vs live: {}", op_kind(op), d)));
                self.desync = true;
            }
        }
        if o.probes && !self.desync {
            if let Err(msg) = ops::probe_root(&mut self.live.comp, &self.model) {
                problems.push(("model".into(), format!("after {}: {}", op_kind(op), msg)));
            }
            for (p, exact) in self.probe_paths(extra_paths) {
                if let Err(msg) = ops::probe(&mut self.live.comp, &self.model, &p, exact) {
                    let class = if msg.contains("PANIC") { "panic" } else { "model" };
                    problems.push((class.into(), format!("after {}: {}", op_kind(op), msg)));
                    break;
                }
            }
        }
        if o.spec || o.reopen {
            let image = self.live.snapshot();
            let parsed = spec::parse(&image);
            match &parsed {
                Err(e) => {
                    if o.spec {
                        problems.push(("spec".into(), format!("after {}: image not navigable: {}", op_kind(op), e)));
                    }
                }
                Ok(p) => {
                    if o.spec {
                        let errs = spec::check(p, &image);
                        if let Some(first) = errs.first() {
                            problems.push(("spec".into(), format!("after {}: {} (+{} more)", op_kind(op), first, errs.len() - 1)));
                        }
                    }
                    if o.reopen && live_dump.is_some() {
                        match spec::logical(p, &image) {
                            Ok(tree) => {
                                if let Some(d) = live_dump.as_ref().unwrap().diff(&tree.dump()) {
                                    problems.push(("reopen".into(), format!("after {}: live vs independent parse of the bytes: {}", op_kind(op), d)));
                                }
                            }
                            Err(e) => problems.push(("reopen".into(), format!("after {}: independent parse cannot read content: {}", op_kind(op), e))),
                        }
                    }
                }
            }
            if o.reopen && live_dump.is_some() {
                for strict in [false, true] {
                    match Live::open(image.clone(), strict) {
                        Err(e) => problems.push(("reopen".into(), format!("after {}: snapshot does not reopen: {}", op_kind(op), e))),
                        Ok(mut l2) => match ops::dump_real(&mut l2.comp) {
                            Err(e) => problems.push(("reopen".into(), format!("after {}: reopened({}) dump failed: {}", op_kind(op), strict, e))),
                            Ok(d2) => {
                                if let Some(d) = live_dump.as_ref().unwrap().diff(&d2) {
                                    problems.push((
                                        "reopen".into(),
                                        format!("after {}: live vs reopened({}): {}", op_kind(op), if strict { "strict" } else { "permissive" }, d),
                                    ));
                                }
                                // observation must not change the image
                                if l2.snapshot() != image {
                                    problems.push(("reopen".into(), "observation changed the image".into()));
                                }
                            }
                        },
                    }
                }
            }
        }
        StepReport { outcome: st.outcome, problems }
    }
}

pub fn op_kind(op: &Op) -> String {
    let s = format!("{:?}", op);
    s.split('(').next().unwrap_or("op").to_string()
}

pub fn to_violations(problems: Vec<(String, String)>, hist: &History) -> Vec<Violation> {
    problems
        .into_iter()
        .map(|(class, msg)| {
            // the signature names the defect, not the operation that met it
            let core = match (msg.starts_with("after "), msg.find(": ")) {
                (true, Some(i)) => &msg[i + 2..],
                _ => &msg[..],
            };
            Violation { sig: format!("{}:{}", class, sig_norm(core)), class, msg: msg.clone(), replay: hist.to_json() }
        })
        .collect()
}

pub struct RunResult {
    pub violations: Vec<Violation>,
    pub outcomes: Vec<Outcome>,
    pub final_image: Option<Vec<u8>>,
    pub final_model: Option<Model>,
    pub steps: u64,
}

/// Runs a history from its seed.  Steps with index < full_from get only
/// the light oracle (outcome vs model, panics).
pub fn run_history(h: &History, full_from: usize, o: &Oracles, extra_paths: &[String]) -> RunResult {
    let mut res = RunResult { violations: Vec::new(), outcomes: Vec::new(), final_image: None, final_model: None, steps: 0 };
    let mut r = match crate::seeds::build(&h.seed, h.version) {
        Ok(r) => r,
        Err(e) => {
            res.violations.push(Violation { class: "machinery".into(), sig: format!("seed:{}", h.seed), msg: e, replay: h.to_json() });
            return res;
        }
    };
    for (i, op) in h.ops.iter().enumerate() {
        let oo = if i >= full_from { *o } else { Oracles::LIGHT };
        let rep = r.step(op, &oo, extra_paths);
        res.steps += 1;
        // the live object has not been reopened since a refused call: a result that now differs from the
        // model's (which ignores refused calls) is also "a later result differs from what it would have
        // been without the refused call" (C10)
        let after_refusal = res.outcomes.iter().enumerate().any(|(j, oc)| oc.is_refusal() && !h.reopen_after[j..i].iter().any(|&b| b));
        res.outcomes.push(rep.outcome.clone());
        if !rep.problems.is_empty() {
            let mut sub = h.clone();
            sub.ops.truncate(i + 1);
            sub.reopen_after.truncate(i + 1);
            let mut problems = rep.problems;
            if after_refusal && o.refusal {
                let extra: Vec<(String, String)> = problems.iter().filter(|(c, _)| c == "model").map(|(_, m)| ("refusal".to_string(), format!("after an earlier refused call in the same session a later result differs from the model: {}", m))).collect();
                problems.extend(extra);
            }
            res.violations.extend(to_violations(problems, &sub));
        }
        if r.desync || r.poisoned {
            return res;
        }
        if h.reopen_after.get(i).copied().unwrap_or(false) {
            if let Err(e) = r.reopen() {
                let mut sub = h.clone();
                sub.ops.truncate(i + 1);
                sub.reopen_after.truncate(i + 1);
                res.violations.push(Violation {
                    class: "reopen".into(),
                    sig: format!("reopen:{}", sig_norm(&e)),
                    msg: format!("after {}: continuing on the reopened bytes impossible: {}", op_kind(op), e),
                    replay: sub.to_json(),
                });
                return res;
            }
        }
    }
    res.final_image = Some(r.snapshot());
    res.final_model = Some(r.model.clone());
    res
}
