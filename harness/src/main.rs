fn main(){}
