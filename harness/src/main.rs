mod backend;
mod checks;
mod e1;
mod e1h;
mod e1n;
mod e2;
mod synth;
mod e3;
mod e4;
mod e5;
mod e6;
mod watch;
mod names;
mod upper_table;
mod ops;
mod refmodel;
mod report;
mod runner;
mod seeds;
mod spec;

#[global_allocator]
static ALLOC: e5::CountingAlloc = e5::CountingAlloc;

fn main() {
    ops::install_panic_hook();
    let args: Vec<String> = std::env::args().collect();
    if args.len() < 2 {
        eprintln!("usage: cfbmc check <ID> [--tier quick|thorough] | cfbmc replay <file>");
        std::process::exit(2);
    }
    let code = match args[1].as_str() {
        "check" => {
            let id = args.get(2).cloned().unwrap_or_default();
            let mut tier = std::env::var("VERIF_TIER").unwrap_or_else(|_| "quick".into());
            let mut i = 3;
            while i < args.len() {
                if args[i] == "--tier" && i + 1 < args.len() {
                    tier = args[i + 1].clone();
                    i += 1;
                }
                i += 1;
            }
            checks::run_check(&id, &tier)
        }
        "replay" => checks::replay(args.get(2).map(|s| s.as_str()).unwrap_or("")),
        "worker" => e5::worker_main(&args[2..]),
        other => {
            eprintln!("unknown command {}", other);
            2
        }
    };
    std::process::exit(code);
}
