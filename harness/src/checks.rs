//! The registered checks: one function per property.
use crate::e1::{self, BfsCfg, EnumCfg};
use crate::ops::Op;
use crate::report::Ctx;
use crate::runner::{run_history, History, Oracles};
use serde_json::json;

/// The fourth path is a name of exactly 31 UTF-16 units (the 64-byte name field completely full).
pub const TREE_PATHS: [&str; 7] = ["/a", "/B", "/B/x", "/ccccccccccccccccccccccccccccccc", "/\u{e9}", "/B/Y", "/B/x/z"];

pub fn tree_ops(paths: &[&str]) -> Vec<Op> {
    let mut v = Vec::new();
    for p in paths {
        let p = p.to_string();
        v.push(Op::CreateStorage(p.clone()));
        v.push(Op::CreateStream(p.clone()));
        v.push(Op::CreateNewStream(p.clone()));
        v.push(Op::RemoveStream(p.clone()));
        v.push(Op::RemoveStorage(p.clone()));
        v.push(Op::CreateStorageAll(p.clone()));
        v.push(Op::RemoveStorageAll(p.clone()));
    }
    v
}

pub fn extra_probe_paths(paths: &[&str]) -> Vec<String> {
    let mut v: Vec<String> = paths.iter().map(|s| s.to_string()).collect();
    v.push("/zz".into());
    v.push("/B/../a".into());
    v.push("b/./X/".into());
    v.push("/..".into());
    v
}

pub struct DataAlpha {
    pub paths: Vec<&'static str>,
    pub rewrite: Vec<usize>,
    pub setlen: Vec<u64>,
    pub append: Vec<usize>,
    pub patch: Vec<(u64, usize)>,
    pub remove: bool,
}

pub fn data_ops(a: &DataAlpha) -> Vec<Op> {
    let mut v = Vec::new();
    for p in &a.paths {
        let p = p.to_string();
        for &n in &a.rewrite {
            v.push(Op::Rewrite(p.clone(), n));
        }
        for &n in &a.setlen {
            v.push(Op::SetLen(p.clone(), n));
        }
        for &n in &a.append {
            v.push(Op::Append(p.clone(), n));
        }
        for &(o, n) in &a.patch {
            v.push(Op::Patch(p.clone(), o, n));
        }
        if a.remove {
            v.push(Op::RemoveStream(p.clone()));
        }
    }
    v
}

pub fn sizes_quick(version: u16) -> Vec<usize> {
    if version == 3 {
        vec![0, 1, 64, 65, 512, 4095, 4096, 4097]
    } else {
        vec![0, 1, 64, 65, 4095, 4096, 4097, 8193]
    }
}

pub fn sizes_thorough(version: u16) -> Vec<usize> {
    if version == 3 {
        vec![0, 1, 63, 64, 65, 511, 512, 513, 4095, 4096, 4097, 4608, 8191, 8192, 8193]
    } else {
        vec![0, 1, 63, 64, 65, 4095, 4096, 4097, 8191, 8192, 8193, 12287, 12288, 12289]
    }
}

fn level_mc() -> &'static str {
    "model_checking"
}

fn add_bfs(ctx: &Ctx, tot: &mut (u64, u64), label: &str, cfg: &BfsCfg) {
    let st = e1::bfs(ctx, cfg);
    tot.0 += st.states;
    tot.1 += st.transitions + st.burst_steps;
    ctx.note(format!(
        "bfs {} v{} seed={} ops={}: states={} transitions={} burst_steps={} depth={} closed={}",
        label,
        cfg.version,
        cfg.seed,
        cfg.ops.len(),
        st.states,
        st.transitions,
        st.burst_steps,
        st.depth,
        st.closed
    ));
}

fn add_enum(ctx: &Ctx, tot: &mut (u64, u64), label: &str, cfg: &EnumCfg) {
    let st = e1::enumerate(ctx, cfg);
    tot.0 += st.distinct_images;
    tot.1 += st.checked_steps;
    ctx.add("replayed_prefix_steps", st.replayed_steps);
    ctx.note(format!(
        "enumerate {} v{} seed={} ops={} depth={}: sequences={} checked_steps={} replayed_prefix_steps={} distinct_final_images={}",
        label,
        cfg.version,
        cfg.seed,
        cfg.ops.len(),
        cfg.depth,
        st.sequences,
        st.checked_steps,
        st.replayed_steps,
        st.distinct_images
    ));
}

fn common_assumptions(ctx: &Ctx) {
    ctx.assume("state key = 128-bit hash of the byte image; no collision assumed");
    ctx.assume("storage timestamps are pinned through the public setters right after creation");
    ctx.assume("reference model (refmodel.rs) and independent MS-CFB parser (spec.rs) are trusted by inspection and triangulation");
}

pub fn run_check(id: &str, tier: &str) -> i32 {
    let thorough = tier == "thorough";
    match id {
        "C01" => c01(tier, thorough),
        "C02" => c02(tier, thorough),
        "C03" => c03(tier, thorough),
        "C08" => c08(tier, thorough),
        "C10" => c10(tier, thorough),
        "C15" => c15(tier, thorough),
        "C06" => c06(tier, thorough),
        "C12" => c12(tier, thorough),
        "C13" => c13(tier, thorough),
        "C18" => c18(tier, thorough),
        "C14" => c14(tier, thorough),
        "C07" => c07(tier, thorough),
        "C09" => c09(tier, thorough),
        "C17" => c17(tier, thorough),
        "C04" => c04(tier, thorough),
        "C16" => c16(tier, thorough),
        "C05" => c05(tier, thorough),
        "C11" => c11(tier, thorough),
        _ => {
            eprintln!("unknown check {}", id);
            2
        }
    }
}

fn tree_bfs_cfg(version: u16, npaths: usize, oracles: Oracles, burst_len: usize) -> BfsCfg {
    let paths = &TREE_PATHS[..npaths];
    BfsCfg {
        version,
        seed: "fresh".into(),
        ops: tree_ops(paths),
        oracles,
        extra_paths: extra_probe_paths(paths),
        max_depth: None,
        burst_len,
        max_states: 50_000_000,
    }
}

/// Flat sibling alphabet: create/remove of n same-length names in one storage
/// (closure = every insertion and removal order, every sibling-tree shape).
fn flat_bfs_cfg(version: u16, n: usize, with_storage: bool, oracles: Oracles) -> BfsCfg {
    flat_bfs_names(version, &["m", "d", "x", "h", "f", "t", "b"][..n], with_storage, oracles)
}

/// Same-length ASCII siblings that differ in one unit taken from both sides of the letters:
/// '[' '_' '`' sort after every (upper-cased) letter, '{' after those; none of them is a case
/// variant of another, so any case folding other than "a-z -> A-Z" collides or reorders here.
const PUNCT_SIBLINGS: [&str; 5] = ["ab", "a_", "a`", "a{", "a["];

fn flat_bfs_names(version: u16, names: &[&str], with_storage: bool, oracles: Oracles) -> BfsCfg {
    let n = names.len();
    let mut ops = Vec::new();
    for nm in &names[..n] {
        ops.push(Op::CreateStream(format!("/{}", nm)));
        ops.push(Op::RemoveStream(format!("/{}", nm)));
    }
    // one storage among the siblings, and a nested copy of the first three names
    if with_storage {
        ops.push(Op::CreateStorage("/k".into()));
        ops.push(Op::RemoveStorage("/k".into()));
    }
    BfsCfg { version, seed: "fresh".into(), ops, oracles, extra_paths: names[..n].iter().map(|s| format!("/{}", s)).collect(), max_depth: None, burst_len: 0, max_states: 50_000_000 }
}

/// Four one-mini-sector streams (seed s4x64) and every live sequence of releasing / re-taking mini
/// sectors through them: the allocator's in-memory free list goes through every order that the
/// depth allows (a BFS over images would rebuild it from the file at every step).
fn mini_live_cfg(version: u16, depth: usize, oracles: Oracles) -> EnumCfg {
    let mut ops = Vec::new();
    for i in 0..4 {
        let p = format!("/f0_{}", i);
        ops.push(Op::SetLen(p.clone(), 0));
        ops.push(Op::Append(p.clone(), 128));
        ops.push(Op::Rewrite(p.clone(), 64));
        ops.push(Op::RemoveStream(p));
    }
    EnumCfg { version, seed: "s4x64".into(), ops, depth, oracles, extra_paths: vec![], one_reopen: false, extend_refused: false }
}

/// Names at the 31-unit limit in four encodings: ASCII (1 UTF-8 byte per unit), two-byte, three-byte
/// (CJK: 31 units = 93 bytes; 21 units = 63 bytes) and a surrogate pair at the end; one 32-unit name.
fn long_name_ops() -> Vec<Op> {
    let n31 = format!("/{}", "n".repeat(31));
    let e31 = format!("/{}", "\u{e9}".repeat(31));
    let s31 = format!("/{}{}", "x".repeat(29), "\u{1f600}");
    let n30 = format!("/{}", "m".repeat(30));
    let c31 = format!("/{}", "\u{8cc7}".repeat(31));
    let c21 = format!("/{}", "\u{4e2d}".repeat(21));
    vec![
        Op::Rewrite(n31.clone(), 70),
        Op::CreateStorage(e31.clone()),
        Op::CreateStream(s31.clone()),
        Op::Rewrite(n30, 5000),
        Op::CreateStorage(c31.clone()),
        Op::Rewrite(c21.clone(), 10),
        Op::RemoveStream(n31),
        Op::RemoveStorage(e31),
        Op::RemoveStream(s31),
        Op::RemoveStorage(c31),
        Op::RemoveStream(c21),
        Op::CreateStream(format!("/{}", "y".repeat(32))),
    ]
}

fn c01(tier: &str, thorough: bool) -> i32 {
    // "reopen": a reached state that cannot be opened again (the property covers files "created fresh or reopened")
    let ctx = Ctx::new("C01", tier, level_mc(), "e1", &["model", "reopen"]);
    common_assumptions(&ctx);
    ctx.set_rule("BFS to closure over byte images for the tree alphabet (7 mutators x paths, empty streams), every transition on a fresh real object; live bursts; path-based enumeration of all content-op sequences; a state is distinct by image hash, non-trivial = reached by at least one successful mutation");
    let o = Oracles { model: true, probes: true, refusal: false, spec: false, reopen: false };
    let mut tot = (0u64, 0u64);
    for v in [3u16, 4] {
        add_bfs(&ctx, &mut tot, "tree", &tree_bfs_cfg(v, if thorough { 5 } else { 4 }, o, 0));
        add_bfs(&ctx, &mut tot, "tree+bursts", &tree_bfs_cfg(v, if thorough { 4 } else { 3 }, o, if thorough { 3 } else { 2 }));
        add_bfs(&ctx, &mut tot, "flat siblings", &flat_bfs_cfg(v, 5, thorough, o));
        add_bfs(&ctx, &mut tot, "punctuation siblings", &flat_bfs_names(v, &PUNCT_SIBLINGS, false, o));
        let sizes = if thorough { sizes_thorough(v) } else { sizes_quick(v) };
        let a = DataAlpha { paths: vec!["/s", "/t"], rewrite: sizes.clone(), setlen: vec![], append: vec![], patch: vec![], remove: true };
        add_enum(
            &ctx,
            &mut tot,
            "rewrite/remove",
            &EnumCfg { version: v, seed: "fresh".into(), ops: data_ops(&a), depth: 3, oracles: o, extra_paths: vec!["/s".into(), "/t".into(), "/S".into()], one_reopen: false, extend_refused: false },
        );
        // reopened starts: same alphabet from a previously produced file
        add_enum(
            &ctx,
            &mut tot,
            "rewrite/remove on produced file",
            &EnumCfg { version: v, seed: "s2x100+d1+b5000".into(), ops: data_ops(&a), depth: 2, oracles: o, extra_paths: vec!["/s".into(), "/t".into()], one_reopen: false, extend_refused: false },
        );
        add_enum(&ctx, &mut tot, "four one-mini-sector streams, live", &mini_live_cfg(v, if thorough { 5 } else { 4 }, o));
        add_enum(&ctx, &mut tot, "31-unit names", &EnumCfg { version: v, seed: "fresh".into(), ops: long_name_ops(), depth: 3, oracles: o, extra_paths: vec![], one_reopen: false, extend_refused: false });
    }
    // large files (V3): results and content across the first and the second DIFAT sector, live and reopened
    for seed in ["b7100000", "b15300000"] {
        let ops = vec![Op::Rewrite("/n1".into(), 64), Op::Rewrite("/n1".into(), 100_000), Op::Rewrite("/n2".into(), 100_000), Op::RemoveStream("/n1".into())];
        let ob = Oracles { model: true, probes: false, refusal: false, spec: false, reopen: true };
        add_enum(&ctx, &mut tot, "large file", &EnumCfg { version: 3, seed: seed.into(), ops, depth: 2, oracles: ob, extra_paths: vec![], one_reopen: false, extend_refused: false });
    }
    ctx.finish(tot.0, tot.1)
}

fn c02(tier: &str, thorough: bool) -> i32 {
    let ctx = Ctx::new("C02", tier, level_mc(), "e1", &["reopen"]);
    common_assumptions(&ctx);
    ctx.set_rule("at every op boundary of every explored history the un-flushed byte image is reopened (permissive+strict) and compared with the live view and the independent parser; continuations on the reopened file are compared with live continuations (one reopen at every position)");
    let o = Oracles { model: true, probes: false, refusal: false, spec: false, reopen: true };
    let mut tot = (0u64, 0u64);
    for v in [3u16, 4] {
        add_bfs(&ctx, &mut tot, "tree", &tree_bfs_cfg(v, if thorough { 5 } else { 4 }, o, 0));
        add_bfs(&ctx, &mut tot, "flat siblings", &flat_bfs_cfg(v, 5, thorough, o));
        add_bfs(&ctx, &mut tot, "punctuation siblings", &flat_bfs_names(v, &PUNCT_SIBLINGS, false, o));
        let sizes = if thorough { sizes_thorough(v) } else { sizes_quick(v) };
        let a = DataAlpha {
            paths: vec!["/s", "/t"],
            rewrite: sizes.clone(),
            setlen: vec![0, 64, 4096],
            append: vec![1, 4096],
            patch: vec![(0, 4100)],
            remove: true,
        };
        add_enum(
            &ctx,
            &mut tot,
            "data one-reopen",
            &EnumCfg { version: v, seed: "fresh".into(), ops: data_ops(&a), depth: 3, oracles: o, extra_paths: vec![], one_reopen: true, extend_refused: false },
        );
    }
    // names at the 31-unit limit (the 64-byte name field is exactly full)
    for v in [3u16, 4] {
        add_enum(&ctx, &mut tot, "31-unit names", &EnumCfg { version: v, seed: "fresh".into(), ops: long_name_ops(), depth: 3, oracles: o, extra_paths: vec![], one_reopen: false, extend_refused: false });
        // live sequences of releasing / re-taking mini sectors: continuing live must equal continuing after a reopen
        add_enum(&ctx, &mut tot, "four one-mini-sector streams, live", &mini_live_cfg(v, 4, o));
        // ASCII next to non-ASCII siblings whose UTF-8 length order differs from their UTF-16 length order
        let mixed = ["/abc", "/\u{e9}\u{e9}", "/\u{4e2d}", "/ab", "/g/abc", "/g/\u{e9}\u{e9}"];
        let mut ops: Vec<Op> = vec![Op::CreateStorage("/g".into())];
        for m in mixed {
            ops.push(Op::CreateStream(m.to_string()));
            ops.push(Op::RemoveStream(m.to_string()));
        }
        add_enum(&ctx, &mut tot, "mixed ASCII / non-ASCII names", &EnumCfg { version: v, seed: "fresh".into(), ops, depth: 3, oracles: o, extra_paths: vec![], one_reopen: false, extend_refused: false });
    }
    // metadata of the root and of a storage, interleaved with operations that rewrite the root entry
    for v in [3u16, 4] {
        use crate::ops::TimeSpec;
        let t = TimeSpec { neg: false, secs: 1_700_000_000, nanos: 0 };
        let ops = vec![Op::SetCreated("/".into(), t), Op::SetModified("/".into(), t), Op::SetClsid("/".into(), [7; 16]), Op::SetStateBits("/".into(), 5), Op::CreateStorage("/d".into()), Op::SetCreated("/d".into(), t), Op::SetStateBits("/d".into(), 9), Op::Rewrite("/s".into(), 70), Op::RemoveStream("/s".into()), Op::Touch("/d".into())];
        add_enum(&ctx, &mut tot, "metadata", &EnumCfg { version: v, seed: "fresh".into(), ops, depth: 3, oracles: o, extra_paths: vec![], one_reopen: false, extend_refused: false });
    }
    // growth seeds: the histories that add directory / FAT / MiniFAT sectors
    for (v, seed) in growth_seeds(thorough) {
        let big = seed.starts_with("b7") || seed.starts_with("b15");
        let a = DataAlpha { paths: vec!["/n1", "/n2"], rewrite: if big { vec![64, 100_000] } else { vec![0, 64, 4096] }, setlen: vec![], append: vec![], patch: vec![], remove: !big };
        add_enum(&ctx, &mut tot, "growth seed", &EnumCfg { version: v, seed, ops: data_ops(&a), depth: if big { 1 } else { 2 }, oracles: o, extra_paths: vec![], one_reopen: !big, extend_refused: false });
    }
    ctx.finish(tot.0, tot.1)
}

/// Seeds that stop just short of an allocation-structure boundary.
pub fn growth_seeds(thorough: bool) -> Vec<(u16, String)> {
    let mut v: Vec<(u16, String)> = vec![
        // directory: v3 4 entries/sector, v4 32 entries/sector
        (3, "s2x0".into()),
        (3, "s3x0".into()),
        (3, "s6x0".into()),
        (3, "s7x0".into()),
        (4, "s30x0".into()),
        (4, "s31x0".into()),
        // FAT: 128 cells per v3 sector: header+fat+dir = 2 sectors used, fill to 126/127
        (3, "b63000".into()),
        (3, "b63488".into()),
        (3, "b64000".into()),
        // MiniFAT: 128 cells (v3) -> 127/128 mini sectors
        (3, "s2x4032".into()),
        (3, "s2x4064".into()),
        // mini stream container exactly full: 8 mini sectors per v3 sector
        (3, "s1x512".into()),
        (3, "s1x1024".into()),
        (4, "s1x4032".into()),
        // freed space present
        (3, "r3x100+s1x64".into()),
        (4, "r2x5000+s1x64".into()),
        // freed regular sectors (holding old data) and a directory that is exactly full
        (3, "r1x5000+s3x0".into()),
        (4, "r1x9000+s31x0".into()),
        // just below / across the 110th FAT sector = first DIFAT sector (V3)
        (3, "b7100000".into()),
        (3, "b7200000".into()),
        // just below the 237th FAT sector (V3): the 128th cell of the first DIFAT sector is its chain pointer
        (3, "b15300000".into()),
    ];
    if thorough {
        v.push((4, "s16x4080".into())); // 1024 MiniFAT cells
        v.push((3, "s16x4064+s1x2000".into()));
        v.push((3, "b7140000".into()));
        v.push((3, "b7200000+b100".into()));
    }
    v
}

fn c03(tier: &str, thorough: bool) -> i32 {
    let ctx = Ctx::new("C03", tier, level_mc(), "e1", &["spec"]);
    common_assumptions(&ctx);
    ctx.set_rule("every image reached by the tree BFS, by all content-op sequences and from growth seeds (FAT/DIFAT/directory/MiniFAT sector boundaries) is judged by the independent MS-CFB structural checker");
    let o = Oracles { model: true, probes: false, refusal: false, spec: true, reopen: false };
    let mut tot = (0u64, 0u64);
    for v in [3u16, 4] {
        add_bfs(&ctx, &mut tot, "tree", &tree_bfs_cfg(v, if thorough { 5 } else { 4 }, o, 0));
        add_bfs(&ctx, &mut tot, "flat siblings", &flat_bfs_cfg(v, 5, thorough, o));
        add_bfs(&ctx, &mut tot, "punctuation siblings", &flat_bfs_names(v, &PUNCT_SIBLINGS, false, o));
        let sizes = if thorough { sizes_thorough(v) } else { sizes_quick(v) };
        let a = DataAlpha {
            paths: vec!["/s", "/t"],
            rewrite: sizes.clone(),
            setlen: vec![0, 1, 64, 65, 4095, 4096, 4097],
            append: vec![1, 65, 4096],
            patch: vec![(0, 2), (4095, 2), (0, 4096), (0, 4100), (10, 4090), (64, 8200)],
            remove: true,
        };
        add_enum(&ctx, &mut tot, "data", &EnumCfg { version: v, seed: "fresh".into(), ops: data_ops(&a), depth: if thorough { 3 } else { 2 }, oracles: o, extra_paths: vec![], one_reopen: false, extend_refused: false });
        // sizes at the mini-stream cutoff next to a mini stream that fills many mini sectors, with removals
        let cut = DataAlpha { paths: vec!["/s", "/t"], rewrite: vec![64, 4095, 4096, 4097], setlen: vec![4096], append: vec![], patch: vec![], remove: true };
        add_enum(&ctx, &mut tot, "four one-mini-sector streams, live", &mini_live_cfg(v, if thorough { 5 } else { 4 }, o));
        add_enum(&ctx, &mut tot, "cutoff sizes", &EnumCfg { version: v, seed: "fresh".into(), ops: data_ops(&cut), depth: 3, oracles: o, extra_paths: vec![], one_reopen: false, extend_refused: false });
        let small = DataAlpha { paths: vec!["/s", "/t"], rewrite: vec![0, 65, 4096], setlen: vec![1, 4097], append: vec![64], patch: vec![(0, 4100)], remove: true };
        add_enum(&ctx, &mut tot, "data deep", &EnumCfg { version: v, seed: "fresh".into(), ops: data_ops(&small), depth: if thorough { 5 } else { 4 }, oracles: o, extra_paths: vec![], one_reopen: false, extend_refused: false });
    }
    for (v, seed) in growth_seeds(thorough) {
        let big = seed.starts_with("b7") || seed.starts_with("b15");
        let a = DataAlpha { paths: vec!["/n1", "/n2"], rewrite: if big { vec![64, 100_000] } else { vec![0, 1, 64, 65, 4096] }, setlen: if big { vec![] } else { vec![0, 100, 5000] }, append: if big { vec![] } else { vec![64] }, patch: vec![], remove: !big };
        let mut ops = data_ops(&a);
        if !big {
            ops.push(Op::CreateStorage("/n3".into()));
            ops.push(Op::RemoveStream("/f0_0".into()));
        }
        ops.push(Op::RemoveStream("/big0".into()));
        add_enum(&ctx, &mut tot, "growth seed", &EnumCfg { version: v, seed, ops, depth: if big { 1 } else { 2 }, oracles: o, extra_paths: vec![], one_reopen: false, extend_refused: false });
    }
    // histories that start on a file written elsewhere whose sibling trees contain red nodes
    for v in [3u16, 4] {
        let st = crate::e2::explore_foreign_trees(&ctx, v, thorough);
        tot.0 += st.files;
        tot.1 += st.steps;
        ctx.add("foreign_red_black_start_files", st.files);
        ctx.add("foreign_red_black_sequences", st.cases);
    }
    ctx.finish(tot.0, tot.1)
}

fn c08(tier: &str, thorough: bool) -> i32 {
    let ctx = Ctx::new("C08", tier, level_mc(), "e1", &["model", "reopen", "array"]);
    common_assumptions(&ctx);
    ctx.set_rule("all histories of rewrite / set_len / append / remove over boundary sizes; written bytes are position dependent and never zero, so every byte between an old and a new length must read 0 (model pads with zeros) live and after reopen, and any stale or foreign byte is distinguishable; plus every call sequence (depth 4, thorough 5) of one handle over a resize-centred alphabet (fill_buf, read, write, seeks, set_len to 0/64/100/4096/len-1/len+1/len+600, flush) compared with Vec<u8>+cursor and read back by a fresh handle");
    let o = Oracles { model: true, probes: false, refusal: false, spec: false, reopen: true };
    let mut tot = (0u64, 0u64);
    for v in [3u16, 4] {
        let lens: Vec<u64> = if thorough {
            sizes_thorough(v).into_iter().map(|x| x as u64).collect()
        } else {
            vec![0, 1, 63, 64, 65, 4095, 4096, 4097, if v == 3 { 513 } else { 8193 }]
        };
        let a = DataAlpha { paths: vec!["/s"], rewrite: vec![10, 100, 4100], setlen: lens.clone(), append: vec![1, 70], patch: vec![], remove: false };
        add_enum(&ctx, &mut tot, "one stream", &EnumCfg { version: v, seed: "fresh".into(), ops: data_ops(&a), depth: if thorough { 6 } else { 5 }, oracles: o, extra_paths: vec![], one_reopen: false, extend_refused: false });
        let b = DataAlpha { paths: vec!["/s", "/t"], rewrite: vec![100, 4100], setlen: vec![0, 10, 70, 200, 4096, 5000], append: vec![], patch: vec![], remove: true };
        add_enum(&ctx, &mut tot, "two streams (space reuse)", &EnumCfg { version: v, seed: "fresh".into(), ops: data_ops(&b), depth: if thorough { 5 } else { 4 }, oracles: o, extra_paths: vec![], one_reopen: false, extend_refused: false });
    }
    // the same through ONE handle that reads, seeks, shrinks and grows (the handle's own buffer must not
    // show bytes from before a shrink): every call sequence over a resize-centred alphabet vs Vec<u8>+cursor
    let st = crate::e3::explore_alpha(&ctx, &[3, 4], if thorough { &[1024, 1500, 1 << 20] } else { &[1500, 1 << 20] }, if thorough { &[200, 1025, 5000] } else { &[1025, 5000] }, if thorough { 5 } else { 4 }, &crate::e3::resize_alphabet);
    ctx.note(format!("one handle, resize alphabet (15 calls): configs={} sequences={} calls={}", st.configs, st.sequences, st.calls));
    tot.0 += st.sequences;
    tot.1 += st.calls;
    // "regardless of earlier history": a resize that failed part-way because a write to the underlying
    // file failed, after which the caller (without retrying) grows the stream
    for v in [3u16, 4] {
        let (runs, positions) = crate::e4::explore_resize_faults(&ctx, v, thorough);
        ctx.note(format!("v{} failed resize, then growth: runs={} fault positions={}", v, runs, positions));
        ctx.add("resize_fault_positions", positions);
        tot.0 += runs;
        tot.1 += runs;
    }
    ctx.finish(tot.0, tot.1)
}

fn c10(tier: &str, thorough: bool) -> i32 {
    let ctx = Ctx::new("C10", tier, level_mc(), "e1", &["refusal"]);
    common_assumptions(&ctx);
    ctx.set_rule("every refused call (NotFound / AlreadyExists / InvalidInput) at every state of the tree closure and of the content enumeration: byte image compared bit for bit before/after; refused calls are also extended by every one-step continuation and compared with the continuation without them");
    let o = Oracles { model: true, probes: false, refusal: true, spec: false, reopen: false };
    let mut tot = (0u64, 0u64);
    for v in [3u16, 4] {
        let mut cfg = tree_bfs_cfg(v, if thorough { 5 } else { 4 }, o, 0);
        // invalid names / escaping paths as extra refused calls at every state
        for bad in ["/a:b", "/B/x!", "/..", "/B/../../a", "/toolongname_toolongname_toolongname_x", "/B/q\\r"] {
            cfg.ops.push(Op::CreateStorage(bad.into()));
            cfg.ops.push(Op::CreateStream(bad.into()));
            cfg.ops.push(Op::CreateStorageAll(bad.into()));
        }
        cfg.ops.push(Op::CreateStorageAll("/n/w:x".into()));
        // the root under other spellings (whatever the verdict, a refusal must leave the bytes alone)
        for alias in ["", ".", "/a/..", "/B/x/../.."] {
            cfg.ops.push(Op::RemoveStorageAll(alias.into()));
            cfg.ops.push(Op::RemoveStorage(alias.into()));
        }
        cfg.ops.push(Op::SetClsid("/a".into(), [7; 16]));
        cfg.ops.push(Op::SetStateBits("/zz".into(), 5));
        add_bfs(&ctx, &mut tot, "tree+invalid", &cfg);
        let mut flat = flat_bfs_cfg(v, 5, thorough, o);
        for bad in ["/m/x", "/m:", "/d/../.."] {
            flat.ops.push(Op::CreateStream(bad.into()));
            flat.ops.push(Op::RemoveStream(bad.into()));
            flat.ops.push(Op::CreateStorage(bad.into()));
        }
        flat.ops.push(Op::RemoveStream("/zz".into()));
        flat.ops.push(Op::RemoveStorage("/m".into()));
        flat.ops.push(Op::CreateNewStream("/d".into()));
        add_bfs(&ctx, &mut tot, "flat siblings + refused calls", &flat);
        let a = DataAlpha { paths: vec!["/s", "/t"], rewrite: vec![0, 65, 300, 4096], setlen: vec![1, 4097], append: vec![64], patch: vec![(9999, 1)], remove: true };
        let mut ops = data_ops(&a);
        // the root is not a stream (its entry describes the mini stream's chain)
        for alias in ["/", "", "/s/.."] {
            ops.push(Op::RemoveStream(alias.into()));
            ops.push(Op::CreateNewStream(alias.into()));
        }
        ops.push(Op::CreateStorage("/s".into()));
        ops.push(Op::CreateNewStream("/s".into()));
        ops.push(Op::RemoveStorage("/s".into()));
        // creation below a stream, under two spellings of the parent (refused, and refused again)
        ops.push(Op::CreateStream("/s/x".into()));
        ops.push(Op::CreateStorage("/s/y".into()));
        ops.push(Op::CreateNewStream("/s/../s/./z".into()));
        ops.push(Op::CreateStream("/s/x".into()));
        add_enum(&ctx, &mut tot, "data + refused extended", &EnumCfg { version: v, seed: "fresh".into(), ops, depth: 3, oracles: o, extra_paths: vec![], one_reopen: false, extend_refused: true });
    }
    // refused calls on files with tolerated deviations (entries that permissive open normalises in memory)
    for v in [3u16, 4] {
        let st = crate::e2::refusals_on_deviated(&ctx, v);
        ctx.note(format!("v{} refused calls on deviated files: files={} refused calls checked={}", v, st.files, st.steps));
        tot.0 += st.files;
        tot.1 += st.steps;
    }
    // refused (out-of-range) seeks on a handle, after every call sequence: bytes, entry length and position unchanged
    let st = crate::e3::explore(&ctx, if thorough { &[3, 4] } else { &[3] }, if thorough { &[0, 1500, 1 << 20] } else { &[1500, 1 << 20] }, if thorough { &[0, 1025, 5000] } else { &[0, 5000] }, 3, false);
    ctx.note(format!("handle sequences with refused seeks: configs={} sequences={} calls={}", st.configs, st.sequences, st.calls));
    tot.0 += st.sequences;
    tot.1 += st.calls;
    // two handles on one stream: refused calls (set_len beyond the maximum, out-of-range seeks) on one handle
    // after the stream was resized or extended through the other
    {
        let (cases, runs) = crate::e3::explore_two_handle_refusals(&ctx);
        ctx.note(format!("two handles on one stream, refused call vs same history without it: cases={} runs={}", cases, runs));
        tot.0 += cases;
        tot.1 += runs;
    }
    ctx.finish(tot.0, tot.1)
}

fn c15(tier: &str, thorough: bool) -> i32 {
    let ctx = Ctx::new("C15", tier, level_mc(), "e1", &["growth"]);
    common_assumptions(&ctx);
    ctx.set_rule("every prefix state (fill-level seeds x all prefix sequences up to the depth) x every net-zero cycle x 3 repetitions, on the live object and with a reopen between repetitions; the model confirms the cycle is net-zero; oracle: file length after repetition 1 = 2 = 3");
    let mut states = 0u64;
    let mut trans = 0u64;
    for v in [3u16, 4] {
        let sizes: Vec<usize> = if thorough { sizes_thorough(v) } else { vec![0, 1, 64, 65, 4095, 4096, 4097, if v == 3 { 513 } else { 8193 }] };
        let mut cyc: Vec<Vec<Op>> = Vec::new();
        for &n in &sizes {
            cyc.push(vec![Op::Rewrite("/c".into(), n), Op::RemoveStream("/c".into())]);
            cyc.push(vec![Op::Rewrite("/s".into(), n), Op::RemoveStream("/s".into())]);
        }
        for &(n1, n2) in &[(10usize, 100usize), (100, 10), (100, 5000), (5000, 100), (5000, 9000), (9000, 5000), (0, 64), (64, 4096), (4096, 64)] {
            cyc.push(vec![Op::Rewrite("/s".into(), n2), Op::Rewrite("/s".into(), n1)]);
            cyc.push(vec![Op::Append("/s".into(), n2), Op::SetLen("/s".into(), n1 as u64)]);
            cyc.push(vec![Op::SetLen("/s".into(), n2 as u64), Op::Rewrite("/s".into(), n1)]);
        }
        // overwrite in place through open_stream (no truncation first), across the cutoff in both directions
        for &(n1, n2) in &[(4000usize, 5000usize), (100, 4096), (64, 4100), (1, 8000)] {
            cyc.push(vec![Op::Rewrite("/c".into(), n1), Op::Patch("/c".into(), 0, n2), Op::RemoveStream("/c".into())]);
            cyc.push(vec![Op::Patch("/s".into(), 0, n2), Op::Rewrite("/s".into(), n1)]);
            cyc.push(vec![Op::Patch("/s".into(), 10, n2), Op::SetLen("/s".into(), n1 as u64), Op::Rewrite("/s".into(), n1)]);
        }
        cyc.push(vec![Op::CreateStorage("/q".into()), Op::RemoveStorage("/q".into())]);
        cyc.push(vec![Op::CreateStorageAll("/p/q/r".into()), Op::RemoveStorageAll("/p".into())]);
        cyc.push((0..5).map(|i| Op::CreateStream(format!("/e{}", i))).chain((0..5).map(|i| Op::RemoveStream(format!("/e{}", i)))).collect());
        cyc.push(vec![Op::Rewrite("/c".into(), 100), Op::Rewrite("/d".into(), 5000), Op::RemoveStream("/c".into()), Op::RemoveStream("/d".into())]);
        cyc.push(vec![Op::Rewrite("/c".into(), 100), Op::Rewrite("/d".into(), 200), Op::RemoveStream("/d".into()), Op::RemoveStream("/c".into())]);
        // three small streams (a quarter of a sector each) created, then removed in every order
        let q = if v == 3 { 128 } else { 1024 };
        for order in [[0usize, 1, 2], [0, 2, 1], [1, 0, 2], [1, 2, 0], [2, 0, 1], [2, 1, 0]] {
            let names = ["/ca", "/cc", "/cd"];
            let mut c: Vec<Op> = names.iter().map(|n| Op::Rewrite(n.to_string(), q)).collect();
            c.extend(order.iter().map(|&i| Op::RemoveStream(names[i].to_string())));
            cyc.push(c);
        }
        let a = DataAlpha { paths: vec!["/s", "/t"], rewrite: if thorough { sizes.clone() } else { vec![0, 10, 64, 100, 4095, 4096, 5000] }, setlen: vec![], append: vec![], patch: vec![], remove: true };
        // fill levels of the mini stream / MiniFAT / FAT
        let mut seeds: Vec<String> = vec!["fresh".into()];
        if v == 3 {
            for k in [1usize, 7, 8, 9, 63] {
                seeds.push(format!("s1x{}", 64 * k));
            }
            for s in ["s1x4032+s1x64", "s1x4032+s1x128", "s2x4032+s1x64", "s2x4032+s1x128", "s2x4032+s1x192", "b63000", "b63488", "b64000", "r3x100", "r2x5000+s1x64", "g1x128", "g2x128"] {
                seeds.push(s.to_string());
            }
        } else {
            for k in [1usize, 63] {
                seeds.push(format!("s1x{}", 64 * k));
            }
            for s in ["s1x4032+s1x64", "s1x4032+s1x128", "r3x100", "r2x5000+s1x64", "g1x1024", "g2x1024"] {
                seeds.push(s.to_string());
            }
            if thorough {
                seeds.push("s16x4032+s1x960".into());
                seeds.push("s16x4032+s1x1024".into());
                seeds.push("s16x4032+s1x1088".into());
            }
        }
        let st = e1::cycles(&ctx, v, &seeds, &data_ops(&a), if thorough { 2 } else { 1 }, &cyc);
        if !thorough {
            // depth-2 prefixes over a smaller prefix alphabet, from the fresh file only
            let a2 = DataAlpha { paths: vec!["/s", "/t"], rewrite: vec![0, 100, 4096], setlen: vec![], append: vec![], patch: vec![], remove: true };
            let st2 = e1::cycles(&ctx, v, &["fresh".to_string()], &data_ops(&a2), 2, &cyc);
            ctx.note(format!("cycles v{} depth-2 prefixes: cases={} applicable(net-zero)={} steps={}", v, st2.cases, st2.applicable, st2.steps));
            states += st2.distinct_prefix_states;
            trans += st2.steps;
            ctx.add("cycle_cases", st2.cases);
            ctx.add("cycle_cases_net_zero", st2.applicable);
        }
        ctx.note(format!("cycles v{}: seeds={} cases={} applicable(net-zero)={} steps={} distinct_prefix_states={}", v, seeds.len(), st.cases, st.applicable, st.steps, st.distinct_prefix_states));
        states += st.distinct_prefix_states;
        trans += st.steps;
        ctx.add("cycle_cases", st.cases);
        ctx.add("cycle_cases_net_zero", st.applicable);
    }
    ctx.finish(states, trans)
}

fn c06(tier: &str, thorough: bool) -> i32 {
    let ctx = Ctx::new("C06", tier, level_mc(), "e3", &["array", "refusal"]);
    ctx.assume("the byte-array model accepts any legal short count for read/write (1..=min(n, remaining)) and applies the count the call reported");
    ctx.assume("build profile has debug assertions and overflow checks on, so arithmetic overflow in seek is a panic");
    ctx.set_rule("all call sequences up to the depth over the handle call alphabet (read, fill_buf/consume, write, seek Start/End/Current incl. i64/u64 extremes, set_len, flush, position, len) for every configuration (max_buffer_size x version x initial length); every call compared with Vec<u8>+cursor, then a fresh handle reads everything back; a state is one executed sequence, distinct by construction");
    let mut seqs = 0u64;
    let mut calls = 0u64;
    let mut add = |st: crate::e3::E3Stats, label: &str, ctx: &Ctx| {
        ctx.note(format!("{}: configs={} sequences={} calls={}", label, st.configs, st.sequences, st.calls));
        seqs += st.sequences;
        calls += st.calls;
    };
    if !thorough {
        add(crate::e3::explore(&ctx, &[3, 4], &[0, 1500, 1 << 20], &[0, 1025, 5000], 3, false), "depth 3, 38 calls", &ctx);
    } else {
        add(crate::e3::explore(&ctx, &[3, 4], &[0, 1, 1023, 1024, 1025, 1500, 4096, 5000, 1 << 20], &[0, 10, 1024, 1025, 3000, 4096, 5000, 9000], 3, true), "depth 3, 67 calls", &ctx);
        add(crate::e3::explore(&ctx, &[3, 4], &[1024, 1500, 1 << 20], &[0, 1025, 5000], 4, false), "depth 4, 38 calls", &ctx);
    }
    ctx.finish(seqs, calls)
}

fn leak(ctx: Ctx) -> &'static Ctx {
    Box::leak(Box::new(ctx))
}

fn c12(tier: &str, thorough: bool) -> i32 {
    use crate::backend::CallKind;
    let ctx = leak(Ctx::new("C12", tier, "fault_enumeration", "e4", &["wrongdata"]));
    crate::watch::start(ctx, std::time::Duration::from_secs(30));
    ctx.assume("faults are injected at the Read/Seek calls of the backend (FaultFile); a failed call has no effect on the backend");
    ctx.assume("true stream contents are known from the base-file builder; positions are read back with stream_position(), which performs no I/O");
    ctx.set_rule("for each read-only workload (four hand-written ones, and every sequence of 2 - thorough 3 - steps over 11 read / fill_buf / seek kinds on a mini and a regular stream with a 1024-byte and a 1 MiB buffer): fault-free run to learn the N underlying calls, then one run per read/seek call index k with that call failing (ErrorKind::Other) and one with it returning ErrorKind::Interrupted (which std's read_exact retries inside the library), then all pairs k1<k2 (k2 ranges over the calls of the k1 run); every failed API call is retried up to 3 times; oracle: Err, or the fault-free value; bytes equal the true content at the position the handle reports; no panic. A case is one (workload, plan); all are distinct");
    let mut runs = 0u64;
    let mut calls = 0u64;
    for v in [3u16, 4] {
        let base = match crate::e4::readonly_base(v) {
            Ok(b) => b,
            Err(e) => {
                ctx.report(crate::report::Violation { class: "machinery".into(), sig: "robase".into(), msg: e, replay: json!(null) });
                continue;
            }
        };
        for (name, max_buf, steps) in crate::e4::readonly_workloads_no_retry() {
            let case = crate::e4::FaultCase { no_retry: true, generated: false, with_interrupted: true, workload: name.clone(), version: v, max_buf, steps, plan: vec![], kinds: vec![CallKind::Read, CallKind::Seek], read_only: true };
            let st = crate::e4::explore(ctx, &case, Some(&base), &[CallKind::Read, CallKind::Seek], crate::e4::Pairs::None);
            ctx.note(format!("v{} {} (failed calls not retried): fault positions={} runs={} underlying calls executed={} faults delivered={}", v, name, st.positions, st.runs, st.calls, st.faults_delivered));
            runs += st.runs;
            calls += st.calls;
            ctx.add("fault_positions", st.positions);
            ctx.add("faults_delivered", st.faults_delivered);
        }
        for (name, max_buf, steps) in crate::e4::readonly_workloads() {
            let case = crate::e4::FaultCase { no_retry: false, generated: false, with_interrupted: true, workload: name.clone(), version: v, max_buf, steps, plan: vec![], kinds: vec![CallKind::Read, CallKind::Seek], read_only: true };
            // pairs: both faults in the stream-read phase always; including the open phase for V3 in thorough
            let pairs = if thorough && v == 3 { crate::e4::Pairs::All } else { crate::e4::Pairs::AfterFirstStep };
            let st = crate::e4::explore(ctx, &case, Some(&base), &[CallKind::Read, CallKind::Seek], pairs);
            ctx.note(format!("v{} {}: fault positions={} runs={} (pairs={:?}) underlying calls executed={} faults delivered={}", v, name, st.positions, st.runs, pairs, st.calls, st.faults_delivered));
            runs += st.runs;
            calls += st.calls;
            ctx.add("fault_positions", st.positions);
            ctx.add("faults_delivered", st.faults_delivered);
        }
    }
    // a file whose FAT spans two sectors (V3) / whose tables are read in several steps: faults while open loads them
    for v in [3u16, 4] {
        let base = match crate::e4::readonly_base_large(v) {
            Ok(b) => b,
            Err(e) => {
                ctx.report(crate::report::Violation { class: "machinery".into(), sig: "robase-large".into(), msg: e, replay: json!(null) });
                continue;
            }
        };
        for (name, max_buf, steps) in crate::e4::readonly_workloads_large() {
            let case = crate::e4::FaultCase { no_retry: false, generated: false, with_interrupted: true, workload: name.clone(), version: v, max_buf, steps, plan: vec![], kinds: vec![CallKind::Read, CallKind::Seek], read_only: true };
            let st = crate::e4::explore(ctx, &case, Some(&base), &[CallKind::Read, CallKind::Seek], crate::e4::Pairs::None);
            ctx.note(format!("v{} {}: fault positions={} runs={} underlying calls executed={} faults delivered={}", v, name, st.positions, st.runs, st.calls, st.faults_delivered));
            runs += st.runs;
            calls += st.calls;
            ctx.add("fault_positions", st.positions);
            ctx.add("faults_delivered", st.faults_delivered);
        }
    }
    // generated workloads: every sequence of reads / fill_buf / seeks of the depth on each stream and buffer size
    {
        use rayon::prelude::*;
        let depth = if thorough { 3 } else { 2 };
        let gen = crate::e4::generated_readonly_workloads(depth);
        for v in [3u16, 4] {
            let base = match crate::e4::readonly_base(v) {
                Ok(b) => b,
                Err(_) => continue,
            };
            // two regimes: a failed call is retried (up to three times) before the workload goes on, or the
            // caller simply goes on with its next call
            let stats: Vec<crate::e4::FaultStats> = gen
                .par_iter()
                .flat_map(|(name, max_buf, steps, prefix_len)| {
                    [false, true]
                        .into_iter()
                        .map(|no_retry| {
                            let case = crate::e4::FaultCase { no_retry, generated: true, with_interrupted: true, workload: name.clone(), version: v, max_buf: *max_buf, steps: steps.clone(), plan: vec![], kinds: vec![CallKind::Read, CallKind::Seek], read_only: true };
                            crate::e4::explore_from(ctx, &case, Some(&base), &[CallKind::Read, CallKind::Seek], crate::e4::Pairs::None, *prefix_len)
                        })
                        .collect::<Vec<_>>()
                })
                .collect();
            let (mut r, mut c, mut p, mut d) = (0u64, 0u64, 0u64, 0u64);
            for st in &stats {
                r += st.runs;
                c += st.calls;
                p += st.positions;
                d += st.faults_delivered;
            }
            ctx.note(format!("v{} generated workloads (2 streams x 2 buffer sizes x every sequence of {} steps over 11 step kinds): workloads={} fault positions={} runs={} underlying calls executed={} faults delivered={}", v, depth, gen.len(), p, r, c, d));
            runs += r;
            calls += c;
            ctx.add("fault_positions", p);
            ctx.add("faults_delivered", d);
            ctx.add("generated_workloads", gen.len() as u64);
        }
    }
    ctx.set("evaluations", runs);
    ctx.set("distinct_nontrivial", runs.saturating_sub(1));
    ctx.finish(runs, calls)
}

fn c13(tier: &str, thorough: bool) -> i32 {
    use crate::backend::CallKind;
    let ctx = leak(Ctx::new("C13", tier, "fault_enumeration", "e4", &["swallowed", "lost"]));
    crate::watch::start(ctx, std::time::Duration::from_secs(30));
    ctx.assume("faults are injected at the Write/Seek/Flush calls of the backend; a failed call has no effect on the backend");
    ctx.assume("handles are flushed explicitly before being dropped; Drop is not relied on (excluded by the property)");
    ctx.set_rule("for each mutating workload: fault-free run, then one run per write/seek/flush call index k failing (thorough: all pairs of positions after the file has been created with the second fault within the next 300 (V3) / 60 (V4) underlying calls, i.e. in the retry and what follows), retrying each failed API call up to 3 times and running the rest of the workload; oracles: a fault delivered during an API call makes that call return Err; no panic or hang afterwards; whenever flush returns Ok a fresh handle reads back every byte accepted by earlier writes");
    let mut runs = 0u64;
    let mut calls = 0u64;
    for v in [3u16, 4] {
        for (name, max_buf, steps) in crate::e4::mutating_workloads() {
            let case = crate::e4::FaultCase { no_retry: false, generated: false, with_interrupted: false, workload: name.clone(), version: v, max_buf, steps, plan: vec![], kinds: vec![CallKind::Write, CallKind::Seek, CallKind::Flush], read_only: false };
            let st = crate::e4::explore(ctx, &case, None, &[CallKind::Write, CallKind::Seek, CallKind::Flush], if thorough { crate::e4::Pairs::Near(if v == 3 { 300 } else { 60 }) } else { crate::e4::Pairs::None });
            ctx.note(format!("v{} {}: fault positions={} runs={} underlying calls executed={} faults delivered={}", v, name, st.positions, st.runs, st.calls, st.faults_delivered));
            runs += st.runs;
            calls += st.calls;
            ctx.add("fault_positions", st.positions);
            ctx.add("faults_delivered", st.faults_delivered);
        }
    }
    // a failed call that the caller comes back to only after other streams have allocated
    for v in [3u16, 4] {
        for (name, max_buf, steps) in crate::e4::late_retry_workloads() {
            let case = crate::e4::FaultCase { no_retry: true, generated: false, with_interrupted: false, workload: name.clone(), version: v, max_buf, steps, plan: vec![], kinds: vec![CallKind::Write, CallKind::Seek, CallKind::Flush], read_only: false };
            let st = crate::e4::explore_from(ctx, &case, None, &[CallKind::Write, CallKind::Seek, CallKind::Flush], crate::e4::Pairs::None, 4);
            ctx.note(format!("v{} {} (failed calls not retried at once): fault positions={} runs={} underlying calls executed={} faults delivered={}", v, name, st.positions, st.runs, st.calls, st.faults_delivered));
            runs += st.runs;
            calls += st.calls;
            ctx.add("fault_positions", st.positions);
            ctx.add("faults_delivered", st.faults_delivered);
        }
    }
    // large V3 files: the write-backs that add the first / the second DIFAT sector
    for (name, max_buf, steps, prefix_len) in crate::e4::large_mutating_workloads() {
        if !thorough && name.contains("second") {
            continue;
        }
        let case = crate::e4::FaultCase { no_retry: false, generated: false, with_interrupted: false, workload: name.clone(), version: 3, max_buf, steps, plan: vec![], kinds: vec![CallKind::Write, CallKind::Seek, CallKind::Flush], read_only: false };
        let st = crate::e4::explore_from(ctx, &case, None, &[CallKind::Write, CallKind::Seek, CallKind::Flush], crate::e4::Pairs::None, prefix_len);
        ctx.note(format!("v3 {}: fault positions={} runs={} underlying calls executed={} faults delivered={}", name, st.positions, st.runs, st.calls, st.faults_delivered));
        runs += st.runs;
        calls += st.calls;
        ctx.add("fault_positions", st.positions);
        ctx.add("faults_delivered", st.faults_delivered);
    }
    // generated workloads: every step sequence of the depth from three starting states, single faults
    {
        use rayon::prelude::*;
        let depth = if thorough { 3 } else { 2 };
        let gen = crate::e4::generated_mutating_workloads(depth);
        for (v, no_retry) in [(3u16, false), (4, false), (3, true), (4, true)] {
            let stats: Vec<crate::e4::FaultStats> = gen
                .par_iter()
                .map(|(name, max_buf, steps, prefix_len)| {
                    let case = crate::e4::FaultCase { no_retry, generated: true, with_interrupted: false, workload: name.clone(), version: v, max_buf: *max_buf, steps: steps.clone(), plan: vec![], kinds: vec![CallKind::Write, CallKind::Seek, CallKind::Flush], read_only: false };
                    // faults in the calls of the generated steps (and of the closing flushes), not of the common prefix
                    crate::e4::explore_from(ctx, &case, None, &[CallKind::Write, CallKind::Seek, CallKind::Flush], crate::e4::Pairs::None, *prefix_len)
                })
                .collect();
            let (mut r, mut c, mut p, mut d) = (0u64, 0u64, 0u64, 0u64);
            for st in &stats {
                r += st.runs;
                c += st.calls;
                p += st.positions;
                d += st.faults_delivered;
            }
            ctx.note(format!("v{} generated workloads (4 starting states x every sequence of {} steps over 14 step kinds), failed calls {}: workloads={} fault positions={} runs={} underlying calls executed={} faults delivered={}", v, depth, if no_retry { "not retried" } else { "retried" }, gen.len(), p, r, c, d));
            runs += r;
            calls += c;
            ctx.add("fault_positions", p);
            ctx.add("faults_delivered", d);
            ctx.add("generated_workloads", gen.len() as u64);
        }
    }
    ctx.set("evaluations", runs);
    ctx.set("distinct_nontrivial", runs.saturating_sub(1));
    ctx.finish(runs, calls)
}

fn c14(tier: &str, thorough: bool) -> i32 {
    use crate::e6::{explore_config, image_for, Policy, ROp, SchedCase, WOp, ALL_ROPS, ALL_WOPS};
    let ctx = leak(Ctx::new("C14", tier, level_mc(), "e6", &["deadlock", "window"]));
    crate::watch::start(ctx, std::time::Duration::from_secs(60));
    ctx.assume("scheduling points at every acquisition request (blocking or not) of every RwLock of the crate (cfg(cfb_verif) shim; the unchanged crate has one) are sufficient: all shared state is behind those locks; each lock has its own model, keyed by its address");
    ctx.assume("lock priority is explored under two policies: reader-preferring, and writer-preferring (a waiting writer blocks new readers, as std's futex RwLock on Linux does)");
    ctx.set_rule("for every driver configuration (writer op sequence x reader op assignment x lock policy x version) all schedules are explored by depth-first search over choice sequences with an iterated preemption bound (unbounded where it completes within the cap); oracles: no deadlock (no enabled thread while one is unfinished), no panic, every reader result equals the sequential result after some whole number of writer handle calls inside the call's window");
    let mut schedules = 0u64;
    let mut steps = 0u64;
    let mut outcomes = 0u64;
    let mut configs = 0u64;
    let mut unbounded_configs = 0u64;
    let versions: Vec<u16> = if thorough { vec![3, 4] } else { vec![4] };
    let started = std::time::Instant::now();
    let budget = std::time::Duration::from_secs(60 * std::env::var("VERIF_C14_BUDGET_MIN").ok().and_then(|x| x.parse::<u64>().ok()).unwrap_or(if thorough { 40 } else { 600 }));
    for v in versions {
        let image = image_for(v);
        for policy in [Policy::WriterPreferring, Policy::ReaderPreferring] {
            // writer sequences
            let mut wseqs: Vec<Vec<WOp>> = ALL_WOPS.iter().map(|w| vec![*w]).collect();
            if thorough {
                // all ordered pairs of the four ops that change length / cross the buffer (V4; V3 runs single ops)
                if v == 4 {
                    let four = [WOp::WriteSmall, WOp::Shrink, WOp::Grow, WOp::Overflow];
                    for a in four {
                        for b in four {
                            wseqs.push(vec![a, b]);
                        }
                    }
                }
            } else {
                wseqs.push(vec![WOp::Shrink, WOp::Grow]);
                wseqs.push(vec![WOp::Overflow, WOp::WriteSmall]);
                wseqs.push(vec![WOp::FailingSetLen, WOp::WriteSmall]);
            }
            // reader assignments: one reader with one op; one reader with two ops; two readers
            let mut rsets: Vec<Vec<Vec<ROp>>> = ALL_ROPS.iter().map(|r| vec![vec![*r]]).collect();
            for (a, b) in [(ROp::Walk, ROp::Entry), (ROp::ReadStorage, ROp::Walk), (ROp::Entry, ROp::ReadRoot)] {
                rsets.push(vec![vec![a, b]]);
                rsets.push(vec![vec![a], vec![b]]);
            }
            // a thread that repeats a lookup next to a thread that looks something else up (memoised lookups,
            // lock-order inversions between a cache lock and the allocator lock need three threads)
            rsets.push(vec![vec![ROp::Entry, ROp::Entry], vec![ROp::Exists]]);
            rsets.push(vec![vec![ROp::IsStream, ROp::IsStream], vec![ROp::IsStorage, ROp::Entry]]);
            if thorough {
                for (i, a) in ALL_ROPS.iter().enumerate() {
                    for b in &ALL_ROPS[i..] {
                        rsets.push(vec![vec![*a], vec![*b]]);
                    }
                }
                rsets.push(vec![vec![ROp::Walk], vec![ROp::ReadStorage], vec![ROp::Entry]]);
            }
            let mut cases: Vec<SchedCase> = Vec::new();
            for w in &wseqs {
                for r in &rsets {
                    cases.push(SchedCase { version: v, policy, writer: w.clone(), readers: r.clone(), big_buffer: false });
                }
            }
            // big-buffer configurations: one write-back moves many sectors' worth of data
            for w in [vec![WOp::BigWrite], vec![WOp::WriteLarge], vec![WOp::BigWrite, WOp::Shrink], vec![WOp::Grow, WOp::BigWrite]] {
                for r in [vec![vec![ROp::Entry]], vec![vec![ROp::Walk]], vec![vec![ROp::ReadRoot]], vec![vec![ROp::Entry], vec![ROp::Walk]], vec![vec![ROp::Entry, ROp::Entry]]] {
                    cases.push(SchedCase { version: v, policy, writer: w.clone(), readers: r, big_buffer: true });
                }
            }
            configs += cases.len() as u64;
            let cap: u64 = if thorough { 10_000 } else { 4_000 };
            use rayon::prelude::*;
            // per configuration: unbounded first; if the cap is hit fall back to preemption bound 2, then 1
            let results: Vec<(u64, u64, Option<(Option<usize>, u64, usize)>)> = cases
                .par_iter()
                .map(|case| {
                    let mut sch = 0u64;
                    let mut stp = 0u64;
                    let mut done = None;
                    // wall-clock budget (thorough tier): configurations started after it are explored from
                    // preemption bound 1 downwards only; the evidence records the bound completed per configuration
                    let late = started.elapsed() > budget;
                    if late {
                        ctx.add("configs_started_after_time_budget", 1);
                    }
                    let bounds: &[Option<usize>] = if late { &[Some(1), Some(0)] } else { &[None, Some(3), Some(2), Some(1), Some(0)] };
                    for &bound in bounds {
                        let st = explore_config(ctx, case, &image, bound, cap);
                        sch += st.schedules;
                        stp += st.steps;
                        if !st.capped {
                            done = Some((bound, st.schedules, st.outcomes.len()));
                            break;
                        }
                    }
                    (sch, stp, done)
                })
                .collect();
            for (ci, (sch, stp, done)) in results.into_iter().enumerate() {
                schedules += sch;
                steps += stp;
                match done {
                    Some((b, n, o)) => {
                        outcomes += o as u64;
                        let bname = b.map(|x| x.to_string()).unwrap_or("unbounded".into());
                        if b.is_none() {
                            unbounded_configs += 1;
                        }
                        if ci % 29 == 0 {
                            ctx.sample(json!({"config": cases[ci], "completed_preemption_bound": bname, "schedules_at_that_bound": n, "distinct_outcome_vectors": o}));
                        }
                        ctx.add(&format!("configs_completed_preemption_bound_{}", bname), 1);
                    }
                    None => {
                        ctx.add("configs_not_completed_even_at_bound_0", 1);
                        ctx.not_exhaustive("a configuration hit the schedule cap at preemption bound 0");
                    }
                }
            }
        }
    }
    ctx.set("configs", configs);
    ctx.set("configs_fully_explored_unbounded", unbounded_configs);
    ctx.set("distinct_outcome_vectors_summed", outcomes);
    ctx.finish(schedules, steps)
}

fn c07(tier: &str, thorough: bool) -> i32 {
    let ctx = leak(Ctx::new("C07", tier, level_mc(), "e1h", &["handle"]));
    common_assumptions(ctx);
    ctx.assume("in the main passes a handle's own stream is never removed or overwritten through another path while the handle is held (the property speaks of handles whose stream exists); a separate pass removes held streams and judges only the effect on every other object");
    ctx.set_rule("start states = every distinct image reachable by create_stream/remove_stream over the sibling names (all sibling-tree shapes x directory slot assignments the library produces); handles on every ordered choice of <= 2 streams; stream contents of 300/5000/200 bytes and, in a second pass, 4095/4096/64 bytes (both sides of the mini-stream cutoff); in a third pass handles are held on all of four (thorough: five) 64-byte streams and every sequence over {set_len(0), append 128, flush} per handle is run; every action sequence up to the depth over handle ops (write, append, flush, set_len, read-all) and structural mutations of other entries (remove, overwrite, create stream/storage); handle results checked at every call; at the forced quiescent end: full dump vs model, independent checker and parse, strict reopen");
    let mut seqs = 0u64;
    let mut acts = 0u64;
    for v in [3u16, 4] {
        let runs: Vec<(&[&str], usize, bool)> = if thorough { if v == 3 { vec![(&["a", "b", "c", "d"], 3, false), (&["a", "b", "c"], 3, true)] } else { vec![(&["a", "b", "c"], 3, true)] } } else { vec![(&["a", "b", "c"], 3, false)] };
        for (names, depth, rich) in runs {
            // quick: pairs of handles in V3 only (directory slots 4 per sector make V3 the richer case)
            let st = crate::e1h::explore(ctx, v, names, depth, rich, if thorough || v == 3 { 2 } else { 1 }, 0);
            ctx.note(format!("v{} names={:?} depth={} rich={}: start_states={} (state,handles) choices={} sequences={} actions={}", v, names, depth, rich, st.start_states, st.handle_choices, st.sequences, st.actions));
            seqs += st.sequences;
            acts += st.actions;
            ctx.add("start_states", st.start_states);
        }
        // stream sizes on both sides of the 4096-byte cutoff (4095 / exactly 4096 / 64 bytes)
        let depth = if thorough { 3 } else { 2 };
        let st = crate::e1h::explore(ctx, v, &["a", "b", "c"], depth, thorough, 2, 1);
        ctx.note(format!("v{} cutoff-sized fills depth={}: start_states={} (state,handles) choices={} sequences={} actions={}", v, depth, st.start_states, st.handle_choices, st.sequences, st.actions));
        seqs += st.sequences;
        acts += st.actions;
        // handles on all of four (thorough: five) one-mini-sector streams: every order of releasing and re-taking mini sectors
        let (names, depth): (&[&str], usize) = if thorough { (&["a", "b", "c", "d", "e"], 5) } else { (&["a", "b", "c", "d"], 4) };
        let st = crate::e1h::explore_many(ctx, v, names, depth);
        ctx.note(format!("v{} handles on all of {} one-mini-sector streams, depth {}: sequences={} actions={}", v, names.len(), depth, st.sequences, st.actions));
        seqs += st.sequences;
        acts += st.actions;
    }
    // handles that outlive their stream
    for v in [3u16, 4] {
        let depth = if thorough { 5 } else { 4 };
        let st = crate::e1h::explore_stale(ctx, v, depth);
        ctx.note(format!("v{} handles outliving their stream, depth {}: sequences={} actions={}", v, depth, st.sequences, st.actions));
        seqs += st.sequences;
        acts += st.actions;
    }
    // equal leaf names under two parents, handles re-opened by path in the middle of the history
    for v in [3u16, 4] {
        let depth = if thorough { 6 } else { 5 };
        let st = crate::e1h::explore_namesakes(ctx, v, depth);
        ctx.note(format!("v{} namesakes under two parents with re-opened handles, depth {}: sequences={} actions={}", v, depth, st.sequences, st.actions));
        seqs += st.sequences;
        acts += st.actions;
    }
    // handles held while the file's allocation structures grow: start one allocation short of a new
    // FAT sector, the first / second DIFAT sector, a directory sector, a MiniFAT sector
    let mut seeded: Vec<(u16, &str, usize, usize)> = vec![(3, "b63488", 70_000, 2), (3, "b7100000", 70_000, 2), (3, "b15300000", 70_000, 2), (3, "s7x0", 600, 3), (4, "s31x0", 5000, 3), (3, "s2x4032", 200, 3), (4, "s1x4032", 200, 3)];
    if thorough {
        seeded = seeded.into_iter().map(|(v, s, b, d)| (v, s, b, d + 1)).collect();
    }
    for (v, seed, big, depth) in seeded {
        let st = crate::e1h::explore_seeded(ctx, v, seed, big, depth);
        ctx.note(format!("v{} handles across structure growth, seed {} (appends of {} bytes), depth {}: sequences={} actions={}", v, seed, big, depth, st.sequences, st.actions));
        seqs += st.sequences;
        acts += st.actions;
    }
    ctx.finish(seqs, acts)
}

fn c09(tier: &str, thorough: bool) -> i32 {
    let ctx = leak(Ctx::new("C09", tier, level_mc(), "e1n", &["model", "refusal", "spec", "reopen"]));
    common_assumptions(ctx);
    ctx.assume(&format!("upper-casing is judged by the BMP-wide simple upper-case table generated from CPython's Unicode database (version {}), on the code units where Rust's std gives the same single-character answer; units whose upper-casing is not one BMP character (sharp s, ligatures, iota-subscript forms) or on which the two databases disagree (letters cased only in newer Unicode versions) are not judged; surrogate halves are never folded (MS-CFB 2.6.4 works on UTF-16 code units), so cased supplementary-plane letters are outside the alphabet", crate::upper_table::UNIDATA_VERSION));
    ctx.set_rule("(a) every name of the alphabet (22 base names incl. cased/caseless non-ASCII, exceptional upper-casing, supplementary plane; x^n, e-acute^n and emoji names of every length 1..40 units; each of / \\ : ! embedded) x every creation call at two depths, full oracle (model incl. case-variant lookups, image unchanged on refusal, independent checker, reopen); (b) every ordered selection of k pairwise case-distinct names inserted in that order with the full oracle after each insertion, collisions up to case, then every removal order; (c) every path spelling x every API call incl. escaping and non-UTF-8 paths; (d) every judged BMP code unit c in a name q{c}z: created, found, listed, reopened, independently parsed; for cased c every other member of its case class must collide and address the same object, and a caseless witness unit between c and its upper-case form fixes the listing order (quick: every cased unit, every 16th caseless unit; thorough: all)");
    let mut hists = 0u64;
    let mut steps = 0u64;
    let mut add = |st: crate::e1n::NStats, label: &str, ctx: &Ctx| {
        ctx.note(format!("{}: histories={} steps={}", label, st.histories, st.steps));
        hists += st.histories;
        steps += st.steps;
    };
    for v in [3u16, 4] {
        add(crate::e1n::validity(ctx, v), &format!("v{} validity", v), ctx);
        add(crate::e1n::spellings(ctx, v), &format!("v{} spellings", v), ctx);
        // every cased BMP unit; caseless units: every 16th in the quick tier, all of them in thorough
        add(crate::e1n::bmp_sweep(ctx, v, if thorough { 1 } else { 16 }), &format!("v{} BMP sweep", v), ctx);
        let names = crate::e1n::base_names();
        if thorough {
            add(crate::e1n::coexistence(ctx, v, &names, 3), &format!("v{} coexistence k=3 over {} names", v, names.len()), ctx);
            let mid: Vec<String> = names.iter().enumerate().filter(|(i, _)| i % 2 == 0 || *i > 30).map(|(_, n)| n.clone()).take(18).collect();
            add(crate::e1n::coexistence(ctx, v, &mid, 4), &format!("v{} coexistence k=4 over {} names", v, mid.len()), ctx);
            let few: Vec<String> = names.iter().filter(|n| !n.is_ascii() || n.len() == 1).take(9).cloned().collect();
            add(crate::e1n::coexistence(ctx, v, &few, 5), &format!("v{} coexistence k=5 over {} names", v, few.len()), ctx);
        } else {
            // quick: all ordered triples over a 22-name subset that keeps every class of name, all ordered pairs over everything
            let sub: Vec<String> = names.iter().enumerate().filter(|(i, _)| ![1usize, 4, 6, 10, 14, 18, 19, 21, 23, 25, 27, 28, 29, 30, 31, 33, 34, 39, 40, 41, 42, 44, 45].contains(i)).map(|(_, n)| n.clone()).collect();
            add(crate::e1n::coexistence(ctx, v, &sub, 3), &format!("v{} coexistence k=3 over {} names", v, sub.len()), ctx);
            add(crate::e1n::coexistence(ctx, v, &names, 2), &format!("v{} coexistence k=2 over {} names", v, names.len()), ctx);
            if v == 3 {
                let few: Vec<String> = ["a", "B", "\u{e9}", "\u{1f600}", "\u{e000}a", "\u{3a9}", "ab", "\u{ff21}"].iter().map(|s| s.to_string()).collect();
                add(crate::e1n::coexistence(ctx, v, &few, 4), &format!("v{} coexistence k=4 over {} names", v, few.len()), ctx);
            }
            // characters whose FULL upper-casing is several characters (sharp s, ligatures, n-apostrophe,
            // j-caron, iota with dialytika and tonos) next to those expansions: MS-CFB folds unit by unit,
            // so "stra\u{df}e" and "STRASSE" are different names of different lengths and must coexist -
            // also after reopening
            let exp: Vec<String> = ["\u{df}", "SS", "stra\u{df}e", "STRASSE", "\u{fb01}", "FI", "\u{149}", "\u{2bc}N", "\u{1f0}", "J\u{30c}", "\u{390}", "\u{399}\u{308}\u{301}", "ma\u{df}e", "MASSE"].iter().map(|s| s.to_string()).collect();
            add(crate::e1n::coexistence(ctx, v, &exp, 2), &format!("v{} coexistence k=2 over {} names with multi-character upper-casing", v, exp.len()), ctx);
            // every insertion order of five names, then every removal order (sibling trees of depth up to 5)
            let five: Vec<String> = ["n2", "N3", "n4", "\u{e9}5", "n7"].iter().map(|s| s.to_string()).collect();
            add(crate::e1n::coexistence(ctx, v, &five, 5), &format!("v{} coexistence k=5 over {} names", v, five.len()), ctx);
        }
    }
    ctx.finish(hists, steps)
}

fn c17(tier: &str, thorough: bool) -> i32 {
    use crate::ops::TimeSpec;
    use rayon::prelude::*;
    let ctx = leak(Ctx::new("C17", tier, level_mc(), "e1m", &["model", "reopen", "refusal"]));
    common_assumptions(ctx);
    ctx.assume("expected FILETIME values are computed independently in i128 (100 ns units since 1601, truncated toward the Unix epoch, clamped to [0, 2^64-1])");
    ctx.set_rule("every setter x every value of the alphabets (CLSID: nil, all-ones, a mixed pattern, 16 single-byte patterns; state bits: 0, 1, 2^31, all-ones, 0x01020304, 32 single bits; instants around the Unix epoch, 1601, the upper saturation point, far future, pre-1601, each with sub-100ns offsets on both sides) x object kind (root, storage, stream) x directory position (1st, 2nd, 3rd directory sector) x version; read back through entry, listings, after reopen in both modes and by the independent parser; plus all ordered pairs of setter kinds on one object, setters on missing paths and CLSID on streams; plus all four fields set on the root and on a storage followed by every sequence (depth 3, thorough 4) of content operations (small / large rewrite, set_len 0 / 4096, removal, nested stream, storage create / remove): the values must still be there after every step, live and reopened");
    let mut clsids: Vec<[u8; 16]> = vec![[0; 16], [0xFF; 16], [0x00, 0x11, 0x22, 0x33, 0x44, 0x55, 0x66, 0x77, 0x88, 0x99, 0xaa, 0xbb, 0xcc, 0xdd, 0xee, 0xff]];
    for i in 0..16 {
        let mut c = [0u8; 16];
        c[i] = 0x80 | (i as u8 + 1);
        clsids.push(c);
    }
    let mut bits: Vec<u32> = vec![0, 1, 0x8000_0000, 0xFFFF_FFFF, 0x0102_0304];
    for i in 0..32 {
        bits.push(1u32 << i);
    }
    let mut times: Vec<TimeSpec> = Vec::new();
    let nanos_set: Vec<u32> = if thorough { (0..=250).chain([999_999_899, 999_999_900, 999_999_999]).collect() } else { (0..=250).step_by(7).chain([1, 99, 100, 101, 199, 200, 250, 999_999_900, 999_999_999]).collect() };
    // anchors: (neg, secs)
    let anchors: Vec<(bool, u64)> = vec![
        (false, 0),                  // Unix epoch
        (true, 0),
        (true, 1),
        (false, 1),
        (true, 11_644_473_600),      // 1601-01-01
        (true, 11_644_473_599),
        (true, 11_644_473_601),
        (true, 20_000_000_000),      // before 1601
        (false, 1_833_029_933_770),  // the second in which FILETIME saturates
        (false, 1_833_029_933_769),
        (false, 1_833_029_933_771),
        (false, 4_000_000_000_000),  // far beyond
        (false, 1_700_000_000),      // an ordinary instant
    ];
    for (neg, secs) in anchors {
        for &n in &nanos_set {
            times.push(TimeSpec { neg, secs, nanos: n });
        }
    }
    times.push(TimeSpec { neg: false, secs: 1_833_029_933_770, nanos: 955_161_500 }); // exactly u64::MAX
    times.push(TimeSpec { neg: false, secs: 1_833_029_933_770, nanos: 955_161_600 });
    times.push(TimeSpec { neg: false, secs: 1_833_029_933_770, nanos: 955_161_499 });
    let mut hists: Vec<History> = Vec::new();
    for v in [3u16, 4] {
        let per = if v == 3 { 4 } else { 32 };
        // fillers so that the target lands in the 1st, 2nd, 3rd directory sector
        for sector in 0..3usize {
            let fillers = if sector == 0 { 0 } else { sector * per };
            let seed = if fillers == 0 { "fresh".to_string() } else { format!("s{}x0", fillers) };
            for kind in ["root", "storage", "stream"] {
                let (mut setup, target): (Vec<Op>, String) = match kind {
                    "root" => (vec![], "/".into()),
                    "storage" => (vec![Op::CreateStorage("/T".into())], "/T".into()),
                    _ => (vec![Op::Rewrite("/T".into(), 70)], "/T".into()),
                };
                if kind == "root" && sector > 0 {
                    continue; // the root entry is always slot 0
                }
                let mut push = |ops_: Vec<Op>| {
                    let mut o = setup.clone();
                    o.extend(ops_);
                    let n = o.len();
                    hists.push(History { version: v, seed: seed.clone(), ops: o, reopen_after: vec![false; n] });
                };
                for c in &clsids {
                    push(vec![Op::SetClsid(target.clone(), *c)]);
                }
                for b in &bits {
                    push(vec![Op::SetStateBits(target.clone(), *b)]);
                }
                for t in &times {
                    push(vec![Op::SetCreated(target.clone(), *t)]);
                    push(vec![Op::SetModified(target.clone(), *t)]);
                }
                push(vec![Op::Touch(target.clone())]);
                // ordered pairs of setter kinds: one setter must not clobber another field
                let a = [Op::SetClsid(target.clone(), clsids[2]), Op::SetStateBits(target.clone(), 0x0102_0304), Op::SetCreated(target.clone(), times[3]), Op::SetModified(target.clone(), times[5]), Op::Rewrite("/other".into(), 10), Op::SetStateBits(target.clone(), 0)];
                for x in &a {
                    for y in &a {
                        push(vec![x.clone(), y.clone()]);
                    }
                }
                setup.clear();
            }
            // missing paths
            for op in [Op::SetClsid("/nope".into(), clsids[1]), Op::SetStateBits("/nope".into(), 1), Op::SetCreated("/nope/x".into(), times[0]), Op::SetModified("/nope".into(), times[0]), Op::Touch("/nope".into())] {
                hists.push(History { version: v, seed: seed.clone(), ops: vec![op], reopen_after: vec![false] });
            }
        }
    }
    // metadata set on the root / a storage must survive every later content operation (the mini
    // stream appearing, emptying, migrating; directory slots being freed and reused)
    for v in [3u16, 4] {
        let set_all = |t: &str| vec![Op::SetClsid(t.into(), clsids[2]), Op::SetStateBits(t.into(), 0x0102_0304), Op::SetCreated(t.into(), times[3]), Op::SetModified(t.into(), times[5])];
        let content: Vec<Op> = vec![Op::Rewrite("/s".into(), 100), Op::Rewrite("/s".into(), 5000), Op::SetLen("/s".into(), 0), Op::SetLen("/s".into(), 4096), Op::RemoveStream("/s".into()), Op::Rewrite("/D/t".into(), 64), Op::RemoveStream("/D/t".into()), Op::CreateStorage("/e".into()), Op::RemoveStorage("/e".into()), Op::RemoveStream("/M".into())];
        let depth = if thorough { 4 } else { 3 };
        let mut level: Vec<Vec<Op>> = vec![vec![]];
        for _ in 0..depth {
            let mut next = Vec::new();
            for q in &level {
                for c in &content {
                    let mut t = q.clone();
                    t.push(c.clone());
                    next.push(t);
                }
            }
            for q in &next {
                let mut o = vec![Op::Rewrite("/M".into(), 10), Op::CreateStorage("/D".into())];
                o.extend(set_all("/"));
                o.extend(set_all("/D"));
                o.extend(q.iter().cloned());
                let n = o.len();
                hists.push(History { version: v, seed: "fresh".into(), ops: o, reopen_after: vec![false; n] });
            }
            level = next;
        }
    }
    ctx.sample(json!({"metadata_history": hists[hists.len() / 3]}));
    ctx.sample(json!({"metadata_history": hists[hists.len() - 7]}));
    let steps: u64 = hists
        .par_iter()
        .map(|h| {
            let r = run_history(h, 0, &Oracles::ALL, &[]);
            ctx.report_all(r.violations);
            r.steps
        })
        .sum();
    ctx.set("clsid_values", clsids.len() as u64);
    ctx.set("state_bit_values", bits.len() as u64);
    ctx.set("instants", times.len() as u64);
    ctx.finish(hists.len() as u64, steps)
}

fn c04(tier: &str, thorough: bool) -> i32 {
    let ctx = leak(Ctx::new("C04", tier, level_mc(), "e2", &["layout", "model", "spec", "reopen"]));
    common_assumptions(ctx);
    ctx.assume("the independent writer (synth.rs) is trusted after triangulation: every synthesised file must pass the independent checker and decode to its content before the library sees it");
    ctx.set_rule("for each logical content (8 small trees with sizes around 64 / 4096 / sector boundaries) every layout dimension is enumerated completely with the others canonical: all sector permutations (<= 6-7 logical sectors; rotations / swaps / reversal beyond), interior and trailing free sectors, all mini-sector permutations with gaps, all injective directory slot maps over two directory sectors, all sibling-tree shapes x all colourings without adjacent reds (fully valid red-black ones must open strictly), 0/1/2 DIFAT sectors, both versions; oracle: open succeeds and the view equals the encoded content incl. lookups under case variants; then every one-op (thorough: two-op) mutation under the full E1 oracle");
    let mut files = 0u64;
    let mut steps = 0u64;
    for v in [3u16, 4] {
        let st = crate::e2::explore_layouts(ctx, v, thorough);
        ctx.note(format!("v{}: synthesised files={} (fully valid red-black {}), cases={} mutation steps={}", v, st.files, st.rb_valid, st.cases, st.steps));
        files += st.files;
        steps += st.cases + st.steps;
        ctx.add("synthesised_files", st.files);
        ctx.add("mutation_steps", st.steps);
    }
    ctx.finish(files, steps)
}

fn c16(tier: &str, thorough: bool) -> i32 {
    let ctx = leak(Ctx::new("C16", tier, level_mc(), "e2", &["leniency", "layout"]));
    common_assumptions(ctx);
    ctx.set_rule("for every base file (8 contents x canonical / permuted / DIFAT-sector layouts x versions) every documented deviation is injected at every applicable place (each FAT/DIFAT sector marker with each wrong value, every stream and storage entry, every red-red edge, every name, each header count with +-1/0/large), singly and in all pairs of different kinds; permissive must accept and expose the undamaged content, strict must reject (the header FREESECT variant is accepted by both by design); whenever strict accepts, permissive must accept with the same view. The strict-accept => permissive-same clause is additionally checked on every corrupted input of the C05 sweep");
    let mut files = 0u64;
    let mut cases = 0u64;
    for v in [3u16, 4] {
        let st = crate::e2::explore_deviations(ctx, v, thorough);
        ctx.note(format!("v{}: base files={} deviation cases={}", v, st.files, st.cases));
        files += st.files;
        cases += st.cases;
    }
    // clause (a) on arbitrary inputs: every corrupted input of the C05 enumeration that strict open
    // accepts must be accepted by permissive open with the same view
    let only: Option<Vec<&str>> = if thorough { None } else { Some(vec!["tree-v3", "mixed-v3", "synth-three-minis-v3", "difat-v3", "fresh-v4", "dir2-v3"]) };
    let (c2, _) = sweep_all(ctx, crate::e5::Mode::ReadOnly, thorough, &[], only.as_deref());
    ctx.add("strict_implies_permissive_inputs", c2);
    ctx.finish(files.max(1), cases + c2)
}

fn sweep_all(ctx: &'static Ctx, mode: crate::e5::Mode, thorough: bool, pair_bases: &[&str], only: Option<&[&str]>) -> (u64, u64) {
    let mut cases = 0u64;
    let mut scripts = 0u64;
    for (id, bytes, _) in crate::e5::bases(thorough) {
        if let Some(only) = only {
            if !only.contains(&id.as_str()) {
                continue;
            }
        }
        let pairs = pair_bases.contains(&id.as_str());
        let st = crate::e5::sweep_base(ctx, mode, &id, thorough, pairs, 16);
        ctx.note(format!("base {} ({} bytes): cases={} (pairs={}) scripts/opens={} problems={} worker restarts={}", id, bytes.len(), st.cases, pairs, st.scripts, st.problems, st.restarts));
        cases += st.cases;
        scripts += st.scripts;
        ctx.add("worker_restarts", st.restarts);
        if cases > 0 && ctx.samples.lock().unwrap().len() < 6 {
            let space = crate::e5::CaseSpace::build(&id, thorough, pairs).unwrap();
            ctx.sample(json!({"base": id, "case_index": space.len() / 2, "mutation": space.case(space.len() / 2)}));
        }
    }
    (cases, scripts)
}

fn c05(tier: &str, thorough: bool) -> i32 {
    let ctx = leak(Ctx::new("C05", tier, "exploration", "e5", &["panic", "hang", "abort", "memory"]));
    ctx.assume("every case runs in an isolated worker process that announces the case before running it; a stall (10 s, confirmed alone with 60 s), abort or allocation failure is attributed to that case");
    ctx.assume("memory bound: peak live heap <= 4 MiB + 16 x input length, measured by a counting global allocator in the worker");
    ctx.set_rule("for each base file (fresh, tree, mixed mini+regular, two directory sectors, full mini container, MiniFAT/FAT fill levels, three synthesised non-canonical layouts, a DIFAT-sector file; v3 and v4): every field-aware single corruption (header fields, DIFAT/FAT/MiniFAT cells, every directory entry field x value alphabet incl. special markers, self+-1, counts; all 8-bit fields through 256 values, 16-bit header fields through all 65536 values on two bases), every truncation at half-sector steps, extensions, and a field-agnostic sweep of every aligned 32-bit word x 16 values; all pairs of chain-cell corruptions (FAT cells, MiniFAT cells, start sectors x {0,1,2,3, self+-1, last, END, FREE}) on four (thorough: eight) bases; thorough adds all pairs of 32-bit field corruptions on the small bases; script: open in both modes, walk, list, look up, read and seek in every stream. A case is distinct by (base, mutation); non-trivial = differs from the base file");
    let pair_bases: Vec<&str> = if thorough { vec!["fresh-v3", "tree-v3", "dir2-v3"] } else { vec![] };
    let (mut cases, mut scripts) = sweep_all(ctx, crate::e5::Mode::ReadOnly, thorough, &pair_bases, None);
    // all pairs of chain-cell corruptions (rings, tails into rings, cross-links need two wrong cells)
    let chain_bases: Vec<&str> = if thorough { vec!["tree-v3", "mixed-v3", "minifull-v3", "dir2-v3", "synth-three-minis-v3", "synth-three-mixed-v3", "tree-v4", "mixed-v4"] } else { vec!["tree-v3", "mixed-v3", "minifull-v3", "tree-v4"] };
    for b in chain_bases {
        let id = format!("chains:{}", b);
        let st = crate::e5::sweep_base(ctx, crate::e5::Mode::ReadOnly, &id, thorough, true, 16);
        ctx.note(format!("base {}: all pairs of chain-cell corruptions: cases={} problems={} worker restarts={}", id, st.cases, st.problems, st.restarts));
        cases += st.cases;
        scripts += st.scripts;
        ctx.add("worker_restarts", st.restarts);
    }
    ctx.set("evaluations", cases);
    ctx.set("distinct_nontrivial", cases);
    ctx.finish(cases, scripts)
}

fn c11(tier: &str, thorough: bool) -> i32 {
    let ctx = leak(Ctx::new("C11", tier, "exploration", "e5", &["panic", "hang", "abort", "memory"]));
    ctx.assume("every case runs in an isolated worker process (stall limit 30 s, confirmed alone with 60 s)");
    ctx.set_rule("every single corruption of the C05 enumeration that permissive open accepts x every mutation script of length 1 (thorough: also every script of length 2 on the field-aware corruptions of seven small bases) over: create small / large stream, create storage, create under each storage, rewrite / append / set_len(0, 100, 5000) / remove / relative seeks around the end followed by small writes on each existing stream, remove each storage, remove_storage_all(/), setters, flush; each script starts from a fresh open of the corrupted bytes; plus all pairs of chain-cell corruptions on one (thorough: four) bases x every script of length 1; oracle: Ok or Err, never a panic, hang or abort");
    let only: Option<Vec<&str>> = if thorough { None } else { Some(vec!["fresh-v3", "tree-v3", "mixed-v3", "dir2-v3", "minifull-v3", "synth-three-minis-v3", "fresh-v4"]) };
    let (mut cases, mut scripts) = sweep_all(ctx, crate::e5::Mode::Mutating(1), thorough, &[], only.as_deref());
    if thorough {
        // scripts of length 2 on the field-aware corruptions of the small bases (the full sweep x all
        // ~1000 two-step scripts over every base does not finish in hours)
        for b in ["fresh-v3", "tree-v3", "mixed-v3", "dir2-v3", "minifull-v3", "synth-three-minis-v3", "tree-v4"] {
            let id = format!("fields:{}", b);
            let st = crate::e5::sweep_base(ctx, crate::e5::Mode::Mutating(2), &id, thorough, false, 16);
            ctx.note(format!("base {}: field-aware single corruptions x scripts up to length 2: cases={} scripts={} problems={} worker restarts={}", id, st.cases, st.scripts, st.problems, st.restarts));
            cases += st.cases;
            scripts += st.scripts;
            ctx.add("worker_restarts", st.restarts);
        }
    }
    // all pairs of chain-cell corruptions (see C05) that permissive open accepts x every script of length 1
    if !thorough {
        // a V4 file with streams (64-bit stream lengths): field-aware corruptions only in the quick tier
        // ... and a V3 file whose single FAT sector is exactly full (128 sectors)
        for id in ["fields:tree-v4", "fields:fat128-v3"] {
            let st = crate::e5::sweep_base(ctx, crate::e5::Mode::Mutating(1), id, thorough, false, 16);
            ctx.note(format!("base {}: field-aware single corruptions: cases={} scripts={} problems={} worker restarts={}", id, st.cases, st.scripts, st.problems, st.restarts));
            cases += st.cases;
            scripts += st.scripts;
            ctx.add("worker_restarts", st.restarts);
        }
    }
    let chain_bases: Vec<&str> = if thorough { vec!["tree-v3", "mixed-v3", "minifull-v3", "tree-v4"] } else { vec!["tree-v3"] };
    for b in chain_bases {
        let id = format!("chains:{}", b);
        let st = crate::e5::sweep_base(ctx, crate::e5::Mode::Mutating(1), &id, thorough, true, 16);
        ctx.note(format!("base {}: all pairs of chain-cell corruptions: cases={} scripts={} problems={} worker restarts={}", id, st.cases, st.scripts, st.problems, st.restarts));
        cases += st.cases;
        scripts += st.scripts;
        ctx.add("worker_restarts", st.restarts);
    }
    ctx.set("evaluations", scripts);
    ctx.set("distinct_nontrivial", cases);
    ctx.finish(cases, scripts)
}

fn c18_histories(v: u16, depth: usize, sizes: &[usize]) -> Vec<History> {
    let a = DataAlpha { paths: vec!["/s", "/d/t"], rewrite: sizes.to_vec(), setlen: vec![0, 70, 4096], append: vec![100], patch: vec![(1, 3), (60, 4100)], remove: true };
    let mut ops = data_ops(&a);
    ops.push(Op::CreateStorage("/d".into()));
    ops.push(Op::RemoveStorage("/d".into()));
    ops.push(Op::SetStateBits("/d".into(), 7));
    let mut out = Vec::new();
    let mut level: Vec<Vec<Op>> = vec![vec![]];
    for _ in 0..depth {
        let mut next = Vec::new();
        for p in &level {
            for op in &ops {
                let mut q = p.clone();
                q.push(op.clone());
                next.push(q);
            }
        }
        for q in &next {
            out.push(History { version: v, seed: "d1".into(), ops: q.clone(), reopen_after: vec![false; q.len()] });
        }
        level = next;
    }
    out
}

fn c18(tier: &str, thorough: bool) -> i32 {
    let ctx = leak(Ctx::new("C18", tier, level_mc(), "e4", &["differs"]));
    crate::watch::start(ctx, std::time::Duration::from_secs(60));
    ctx.assume("storage timestamps are pinned through the public setters, so images are comparable");
    ctx.assume("OS-level short reads are modelled by the chunking backend, not provoked on the real file");
    ctx.set_rule("every history of a bounded set (all op sequences up to the depth over a content alphabet, plus growth seeds) is run plain, again, on a real file through cfb::create / OpenOptions::create / open_rw / open (on a fresh path and, V4, over an existing longer file), with every transfer chunked to c bytes for each c, with Interrupted on every 2nd/3rd/5th transfer, with a single 1-byte short count and a single Interrupted at every transfer index k, for each max_buffer_size and in the other format version; images must be byte-identical (logical dumps for buffer size / version)");
    let dir = std::path::PathBuf::from(format!("/verif/target/tmp/{}", std::process::id()));
    let _ = std::fs::create_dir_all(&dir);
    let mut hists = Vec::new();
    for v in [3u16, 4] {
        let sizes: Vec<usize> = if thorough { vec![0, 1, 64, 65, 511, 513, 4095, 4096, 4097, 9000] } else { vec![0, 65, 4096, 5000] };
        hists.extend(c18_histories(v, if thorough { 3 } else { 2 }, &sizes));
    }
    // writes followed by reads through the SAME handle (no flush or seek in between), with read sizes on
    // both sides of the buffer sizes tried below
    for v in [3u16, 4] {
        for ops in [
            vec![Op::Rewrite("/s".into(), 10_000), Op::PatchRead("/s".into(), 1000, 500, 3000)],
            vec![Op::Rewrite("/s".into(), 3000), Op::PatchRead("/s".into(), 100, 50, 2000), Op::PatchRead("/s".into(), 2990, 40, 10)],
            vec![Op::Rewrite("/s".into(), 10_000), Op::PatchRead("/s".into(), 0, 1200, 1024), Op::PatchRead("/s".into(), 5000, 10, 5000)],
            vec![Op::Rewrite("/s".into(), 4000), Op::PatchRead("/s".into(), 3990, 200, 1), Op::PatchRead("/s".into(), 10, 10, 4096)],
        ] {
            let n = ops.len();
            hists.push(History { version: v, seed: "d1".into(), ops, reopen_after: vec![false; n] });
        }
    }
    for (v, seed) in growth_seeds(false) {
        if seed.starts_with("b7") || seed.starts_with("b15") {
            continue; // multi-megabyte files: the per-index sweeps would take hours
        }
        hists.push(History { version: v, seed, ops: vec![Op::Rewrite("/n1".into(), 65), Op::Rewrite("/n2".into(), 4096), Op::RemoveStream("/n1".into())], reopen_after: vec![false; 3] });
    }
    let chunks: Vec<usize> = if thorough { vec![1, 2, 3, 7, 63, 64, 65, 511, 512, 513] } else { vec![1, 7, 511] };
    let bufs: Vec<usize> = if thorough { vec![0, 1024, 1025, 1500, 4096, 5000] } else { vec![0, 1500] };
    // the per-index sweep is quadratic in the history length: all histories in thorough, depth-1 and seeds in quick
    let mut small = Vec::new();
    let mut large = Vec::new();
    for (i, h) in hists.into_iter().enumerate() {
        // the per-index sweep is quadratic in the history length: thorough = every history of depth <= 2 (V3) / 1 (V4) and all seeds
        let sweep = if thorough { h.seed != "d1" || h.ops.len() <= if h.version == 3 { 2 } else { 1 } } else { (h.ops.len() <= 1 && h.version == 3 && i % 3 == 0) || (h.seed != "d1" && h.seed.len() <= 7 && h.version == 3) };
        if sweep {
            small.push(h);
        } else {
            large.push(h);
        }
    }
    let st1 = crate::e4::c18_explore(ctx, &small, &chunks, &bufs, true, &dir);
    let st2 = crate::e4::c18_explore(ctx, &large, &chunks, &bufs, false, &dir);
    let _ = std::fs::remove_dir_all(&dir);
    ctx.note(format!("with per-index short/interrupted sweep: histories={} runs={}; without: histories={} runs={}", st1.histories, st1.runs, st2.histories, st2.runs));
    ctx.finish(st1.histories + st2.histories, st1.runs + st2.runs)
}

pub fn replay(path: &str) -> i32 {
    let text = match std::fs::read_to_string(path) {
        Ok(t) => t,
        Err(e) => {
            eprintln!("cannot read {}: {}", path, e);
            return 2;
        }
    };
    let doc: serde_json::Value = match serde_json::from_str(&text) {
        Ok(d) => d,
        Err(e) => {
            eprintln!("bad replay file: {}", e);
            return 2;
        }
    };
    let case = if doc.get("case").is_some() { doc["case"].clone() } else { doc.clone() };
    let kind = case["kind"].as_str().unwrap_or("");
    match kind {
        "history" => {
            let h: History = match serde_json::from_value(case["history"].clone()) {
                Ok(h) => h,
                Err(e) => {
                    eprintln!("bad history: {}", e);
                    return 2;
                }
            };
            println!("replaying history: v{} seed={} {} ops", h.version, h.seed, h.ops.len());
            let res = run_history(&h, 0, &Oracles::ALL, &[]);
            for (op, out) in h.ops.iter().zip(res.outcomes.iter()) {
                println!("  {:?} -> {}", op, out.short());
            }
            // determinism: run twice
            let res2 = run_history(&h, 0, &Oracles::ALL, &[]);
            if res.outcomes != res2.outcomes || res.final_image != res2.final_image {
                eprintln!("replay is not deterministic");
                return 2;
            }
            if res.violations.is_empty() {
                println!("no violation on replay");
                0
            } else {
                for v in &res.violations {
                    println!("VIOLATION-REPLAYED class={} {}", v.class, v.msg);
                }
                1
            }
        }
        "corrupt" => {
            let mode = case["mode"].as_str().unwrap_or("ro").to_string();
            let base = case["base"].as_str().unwrap_or("").to_string();
            crate::e5::replay_case(&mode, &base, case["thorough"].as_bool().unwrap_or(false), case["pairs"].as_bool().unwrap_or(false), case["index"].as_u64().unwrap_or(0))
        }
        "layout" => {
            let c: crate::e2::LayoutCase = match serde_json::from_value(case["layout"].clone()) {
                Ok(c) => c,
                Err(e) => {
                    eprintln!("bad layout case: {}", e);
                    return 2;
                }
            };
            println!("replaying layout case: content {} v{} deviation '{}' ops {:?}", c.content, c.layout.version, c.deviation, c.ops);
            let p = crate::e2::run_case(&c);
            if p.is_empty() {
                println!("no violation on replay");
                0
            } else {
                for (class, msg) in &p {
                    println!("VIOLATION-REPLAYED class={} {}", class, msg);
                }
                1
            }
        }
        "resize_fault" => {
            let c: crate::e4::ResizeFaultCase = match serde_json::from_value(case["resize_fault"].clone()) {
                Ok(c) => c,
                Err(e) => {
                    eprintln!("bad resize-fault case: {}", e);
                    return 2;
                }
            };
            println!("replaying {:?}", c);
            match crate::e4::run_resize_fault_case(&c).1 {
                None => {
                    println!("no violation on replay");
                    0
                }
                Some((class, msg)) => {
                    println!("VIOLATION-REPLAYED class={} {}", class, msg);
                    1
                }
            }
        }
        "two_handles" => {
            let c: crate::e3::TwoHandleCase = match serde_json::from_value(case["two_handles"].clone()) {
                Ok(c) => c,
                Err(e) => {
                    eprintln!("bad two-handle case: {}", e);
                    return 2;
                }
            };
            let without = crate::e3::TwoHandleCase { with_refused: false, ..c.clone() };
            let (a, b) = (crate::e3::run_two_handle_case(&c), crate::e3::run_two_handle_case(&without));
            println!("with the refused call:    {:?}\nwithout the refused call: {:?}", a, b);
            match (a, b) {
                (Ok((true, x)), Ok((_, y))) if x != y => {
                    println!("VIOLATION-REPLAYED class=refusal later results differ");
                    1
                }
                _ => {
                    println!("no violation on replay");
                    0
                }
            }
        }
        "handles" => {
            let c: crate::e1h::HandleHist = match serde_json::from_value(case["handles"].clone()) {
                Ok(c) => c,
                Err(e) => {
                    eprintln!("bad handle history: {}", e);
                    return 2;
                }
            };
            println!("replaying {:?}", c);
            match crate::e1h::run_case(&c) {
                None => {
                    println!("no violation on replay");
                    0
                }
                Some((class, msg)) => {
                    println!("VIOLATION-REPLAYED class={} {}", class, msg);
                    1
                }
            }
        }
        "sched" => {
            let c: crate::e6::SchedCase = match serde_json::from_value(case["sched"].clone()) {
                Ok(c) => c,
                Err(e) => {
                    eprintln!("bad sched case: {}", e);
                    return 2;
                }
            };
            let choices: Vec<usize> = serde_json::from_value(case["choices"].clone()).unwrap_or_default();
            let image = crate::e6::image_for(c.version);
            println!("replaying schedule {:?} of {:?}", choices, c);
            let pool = crate::e6::Pool::new(c.readers.len());
            let a = crate::e6::run_schedule(&c, &image, &choices, &pool);
            let b = crate::e6::run_schedule(&c, &image, &choices, &pool);
            if a.deadlock != b.deadlock || a.reader_results.iter().map(|r| r.len()).collect::<Vec<_>>() != b.reader_results.iter().map(|r| r.len()).collect::<Vec<_>>() {
                eprintln!("replay is not deterministic");
                return 2;
            }
            for p in &a.trace {
                println!("  choice point: enabled {:?} chosen #{}", p.enabled, p.chosen);
            }
            if let Some(d) = &a.deadlock {
                println!("VIOLATION-REPLAYED class=deadlock {}", d);
                return 1;
            }
            if !a.panics.is_empty() {
                println!("VIOLATION-REPLAYED class=panic {:?}", a.panics);
                return 1;
            }
            println!("schedule completed: readers {:?}", a.reader_results);
            0
        }
        "fault" => {
            let c: crate::e4::FaultCase = match serde_json::from_value(case["fault"].clone()) {
                Ok(c) => c,
                Err(e) => {
                    eprintln!("bad fault case: {}", e);
                    return 2;
                }
            };
            let base = if c.read_only { if c.workload.starts_with("two FAT sectors") { crate::e4::readonly_base_large(c.version).ok() } else { crate::e4::readonly_base(c.version).ok() } } else { None };
            println!("replaying workload {:?} v{} with plan {:?}", c.workload, c.version, c.plan);
            let r = crate::e4::run_case(&c, base.as_ref(), None);
            for (i, res) in &r.results {
                println!("  step {} {:?} -> {:?}", i, c.steps[*i], res);
            }
            if r.problems.is_empty() {
                println!("no violation on replay");
                0
            } else {
                for (class, msg) in &r.problems {
                    println!("VIOLATION-REPLAYED class={} {}", class, msg);
                }
                1
            }
        }
        "c18" => {
            let h: History = match serde_json::from_value(case["history"].clone()) {
                Ok(h) => h,
                Err(e) => {
                    eprintln!("bad history: {}", e);
                    return 2;
                }
            };
            let ctx = leak(Ctx::new("C18", "replay", level_mc(), "e4", &["differs"]));
            let dir = std::path::PathBuf::from(format!("/verif/target/tmp/{}", std::process::id()));
            let _ = std::fs::create_dir_all(&dir);
            crate::e4::c18_explore(ctx, &[h], &[1, 2, 3, 7, 63, 64, 65, 511, 512, 513], &[0, 1024, 1500, 4096], true, &dir);
            let _ = std::fs::remove_dir_all(&dir);
            let n = ctx.violations.lock().unwrap().len();
            for (sig, (v, _)) in ctx.violations.lock().unwrap().iter() {
                println!("VIOLATION-REPLAYED {} {}", sig, v.msg);
            }
            if n > 0 {
                1
            } else {
                println!("no violation on replay");
                0
            }
        }
        "handle" => {
            let c: crate::e3::HandleCase = match serde_json::from_value(case["handle"].clone()) {
                Ok(c) => c,
                Err(e) => {
                    eprintln!("bad handle case: {}", e);
                    return 2;
                }
            };
            let base = match crate::e3::make_base(c.version, c.init_len) {
                Ok(b) => b,
                Err(e) => {
                    eprintln!("{}", e);
                    return 2;
                }
            };
            println!("replaying handle case {:?}", c);
            match crate::e3::run_case(&base, &c) {
                None => {
                    println!("no violation on replay");
                    0
                }
                Some((class, msg)) => {
                    println!("VIOLATION-REPLAYED class={} {}", class, msg);
                    1
                }
            }
        }
        "cycle" => {
            let c: e1::CycleCase = match serde_json::from_value(case["cycle"].clone()) {
                Ok(c) => c,
                Err(e) => {
                    eprintln!("bad cycle case: {}", e);
                    return 2;
                }
            };
            match e1::run_cycle(&c) {
                e1::CycleVerdict::Skipped => {
                    println!("cycle not applicable on this tree");
                    0
                }
                e1::CycleVerdict::Problem(c, m) => {
                    println!("VIOLATION-REPLAYED class={} {}", c, m);
                    1
                }
                e1::CycleVerdict::Lens(l) => {
                    println!("file length after each repetition: {:?}", l);
                    if l.windows(2).any(|w| w[0] != w[1]) {
                        println!("VIOLATION-REPLAYED class=growth");
                        1
                    } else {
                        0
                    }
                }
            }
        }
        other => {
            eprintln!("unknown replay kind {:?}; {}", other, json!(case));
            2
        }
    }
}
