//! E1n: names and paths (C09): validity of every name of a Unicode alphabet
//! through every creation call, coexistence of all ordered selections of
//! sibling names with every removal order, collisions up to case, and path
//! spellings.
use crate::ops::{self, guarded, Op};
use crate::report::{sig_norm, Ctx, Violation};
use crate::runner::{run_history, History, Oracles};
use rayon::prelude::*;
use serde_json::json;

pub fn base_names() -> Vec<String> {
    let mut v: Vec<String> = ["a", "A", "b", "ab", "aB", "\u{e9}", "\u{c9}", "\u{df}", "\u{1f0}", "\u{3c9}", "\u{3a9}", "\u{4e2d}", "\u{e000}x", "\u{ff21}", "\u{ff41}", "\u{1f600}", "a\u{1f600}", "\u{e000}a", "Z", "aa", "\u{ff}", "\u{178}", "\u{131}", "I", "\u{17f}", "S", "\u{101}", "\u{100}", "\u{b5}", "\u{17e}", "s\u{e9}", "S\u{c9}", "\u{17f}z", "Ta", "\u{131}d", "ID", "a_", "a`", "a{", "a[", "a~", "a^", "a@", "Root Entry", "root entry", "Root Entrz"]
        .iter()
        .map(|s| s.to_string())
        .collect();
    v.dedup();
    v
}

/// Names of every length 1..=40 UTF-16 units in three families, plus each
/// forbidden character embedded.
pub fn length_and_forbidden_names() -> Vec<String> {
    let mut v = Vec::new();
    for n in 1..=40usize {
        v.push("x".repeat(n));
        v.push("\u{e9}".repeat(n));
        // three UTF-8 bytes per UTF-16 unit
        v.push("\u{8cc7}".repeat(n));
        // 'a' + m emoji: 1 + 2m units; and without the 'a': 2m units
        if n % 2 == 1 {
            v.push(format!("a{}", "\u{1f600}".repeat((n - 1) / 2)));
        } else {
            v.push("\u{1f600}".repeat(n / 2));
        }
    }
    for c in ['/', '\\', ':', '!'] {
        v.push(format!("p{}q", c));
        v.push(format!("{}q", c));
        v.push(format!("p{}", c));
    }
    v
}

fn creators(path: &str) -> Vec<Op> {
    vec![Op::CreateStorage(path.into()), Op::CreateStream(path.into()), Op::CreateNewStream(path.into()), Op::CreateStorageAll(path.into()), Op::Rewrite(path.into(), 70)]
}

pub struct NStats {
    pub histories: u64,
    pub steps: u64,
}

fn run(ctx: &Ctx, hists: Vec<History>, full_from_last: usize, extra: &[String]) -> NStats {
    let steps: u64 = hists
        .par_iter()
        .map(|h| {
            let from = h.ops.len().saturating_sub(full_from_last);
            let r = run_history(h, from, &Oracles::ALL, extra);
            ctx.report_all(r.violations);
            r.steps
        })
        .sum();
    NStats { histories: hists.len() as u64, steps }
}

/// (d) every BMP code unit.  For every judged unit c valid in a name: the name "q{c}z" is created,
/// found again, listed, reopened and judged by the independent checker; if c is cased, every
/// other member of its case class must collide with it (create_new_stream / create_storage
/// refused, lookups succeed), and a caseless witness unit lying between c and its upper-case form
/// is inserted next to it so that the listing order shows whether c was folded.
pub fn bmp_sweep(ctx: &Ctx, version: u16, stride: usize) -> NStats {
    use crate::names::{case_class, trusted_unit, upper_unit};
    let name_of = |c: u16| -> Option<String> { char::from_u32(c as u32).map(|ch| format!("q{}z", ch)) };
    let units: Vec<u16> = (1u16..=0xFFFF).filter(|&c| trusted_unit(c) && ![0x2F, 0x5C, 0x3A, 0x21].contains(&c)).collect();
    if version == 3 {
        ctx.set("bmp_units_judged", units.len() as u64);
    }
    let mut hists: Vec<History> = Vec::new();
    let mut cased = 0u64;
    for (i, &c) in units.iter().enumerate() {
        let n = name_of(c).unwrap();
        let class: Vec<u16> = case_class(c).into_iter().filter(|&d| d != c && trusted_unit(d)).collect();
        if class.is_empty() {
            // caseless: batches would hide nothing, but one file per unit is wasteful - sample by stride
            // only in the quick tier (stride 1 = every unit)
            if i % stride != 0 {
                continue;
            }
            let ops_ = vec![Op::Rewrite(format!("/{}", n), 3)];
            hists.push(History { version, seed: "fresh".into(), ops: ops_, reopen_after: vec![false] });
            continue;
        }
        cased += 1;
        let mut ops_ = vec![Op::Rewrite(format!("/{}", n), 3)];
        for &d in &class {
            let v = name_of(d).unwrap();
            ops_.push(Op::CreateNewStream(format!("/{}", v)));
            ops_.push(Op::CreateStorage(format!("/{}", v)));
        }
        // witness between c and its upper-case form
        let u = upper_unit(c);
        let (lo, hi) = (c.min(u), c.max(u));
        let mid = lo + (hi - lo) / 2;
        let witness = (0..=(hi - lo)).flat_map(|k| [mid.wrapping_add(k), mid.wrapping_sub(k)]).find(|&w| w > lo && w < hi && trusted_unit(w) && upper_unit(w) == w && case_class(w).len() == 1 && ![0x2F, 0x5C, 0x3A, 0x21].contains(&w));
        if let Some(w) = witness {
            ops_.push(Op::CreateStorage(format!("/{}", name_of(w).unwrap())));
        }
        // the other members address the same object
        if let Some(&d) = class.first() {
            ops_.push(Op::RemoveStream(format!("/{}", name_of(d).unwrap())));
        }
        let n_ops = ops_.len();
        hists.push(History { version, seed: "fresh".into(), ops: ops_, reopen_after: vec![false; n_ops] });
    }
    if version == 3 {
        ctx.set("bmp_cased_units_judged", cased);
    }
    run(ctx, hists, usize::MAX, &[])
}

/// (a) every name x every creation call, at the root and one level down.
pub fn validity(ctx: &Ctx, version: u16) -> NStats {
    let mut hists = Vec::new();
    let mut names = base_names();
    names.extend(length_and_forbidden_names());
    for n in &names {
        // also on a file whose directory sectors are exactly full (a new entry needs a new directory sector)
        let full = if version == 3 { "s3x0" } else { "s31x0" };
        for (seed, prefix) in [("fresh", "/"), ("d1", "/g0_0/"), (full, "/")] {
            for op in creators(&format!("{}{}", prefix, n)) {
                hists.push(History { version, seed: seed.into(), ops: vec![op], reopen_after: vec![false] });
            }
            // missing ancestors: a refusal must not leave them behind
            hists.push(History { version, seed: seed.into(), ops: vec![Op::CreateStorageAll(format!("{}q1/q2/{}", prefix, n))], reopen_after: vec![false] });
            hists.push(History { version, seed: seed.into(), ops: vec![Op::CreateStorageAll(format!("{}q1/{}/q3", prefix, n))], reopen_after: vec![false] });
        }
    }
    ctx.sample(json!({"validity_history": hists[hists.len() / 2]}));
    run(ctx, hists, 1, &[])
}

fn permutations(n: usize) -> Vec<Vec<usize>> {
    fn rec(cur: &mut Vec<usize>, used: &mut Vec<bool>, n: usize, out: &mut Vec<Vec<usize>>) {
        if cur.len() == n {
            out.push(cur.clone());
            return;
        }
        for i in 0..n {
            if !used[i] {
                used[i] = true;
                cur.push(i);
                rec(cur, used, n, out);
                cur.pop();
                used[i] = false;
            }
        }
    }
    let mut out = Vec::new();
    rec(&mut Vec::new(), &mut vec![false; n], n, &mut out);
    out
}

/// (b) every ordered selection of k pairwise case-distinct names inserted in
/// that order (full oracle after each insertion), case collisions, then every
/// removal order (full oracle after each removal).
pub fn coexistence(ctx: &Ctx, version: u16, names: &[String], k: usize) -> NStats {
    // ordered selections
    let mut sels: Vec<Vec<usize>> = vec![vec![]];
    for _ in 0..k {
        let mut next = Vec::new();
        for s in &sels {
            for i in 0..names.len() {
                if s.iter().all(|&j| !crate::names::eq(&names[j], &names[i])) {
                    let mut t = s.clone();
                    t.push(i);
                    next.push(t);
                }
            }
        }
        sels = next;
    }
    let perms = permutations(k);
    let totals: Vec<(u64, u64)> = sels
        .par_iter()
        .map(|sel| {
            let mut hists = 0u64;
            let mut steps = 0u64;
            let creates: Vec<Op> = sel.iter().enumerate().map(|(i, &j)| if i % 2 == 0 { Op::CreateStream(format!("/{}", names[j])) } else { Op::CreateStorage(format!("/{}", names[j])) }).collect();
            // insertion with full oracle at every step + collisions up to case
            let mut ops_ = creates.clone();
            for &j in sel {
                for v in crate::names::case_variants(&names[j]) {
                    ops_.push(Op::CreateStorage(format!("/{}", v)));
                    ops_.push(Op::CreateNewStream(format!("/{}", v)));
                }
            }
            // create_stream on a case variant of an existing stream replaces it (keeps the stored name)
            if let Some(v) = crate::names::case_variants(&names[sel[0]]).first() {
                ops_.push(Op::Rewrite(format!("/{}", v), 5));
            }
            let h = History { version, seed: "fresh".into(), ops: ops_.clone(), reopen_after: vec![false; ops_.len()] };
            let r = run_history(&h, 0, &Oracles::ALL, &[]);
            hists += 1;
            steps += r.steps;
            ctx.report_all(r.violations);
            // every removal order
            for p in &perms {
                let mut o = creates.clone();
                for &pi in p {
                    let j = sel[pi];
                    o.push(if pi % 2 == 0 { Op::RemoveStream(format!("/{}", names[j])) } else { Op::RemoveStorage(format!("/{}", names[j])) });
                }
                let h = History { version, seed: "fresh".into(), ops: o.clone(), reopen_after: vec![false; o.len()] };
                let r = run_history(&h, k, &Oracles::ALL, &[]);
                hists += 1;
                steps += r.steps;
                ctx.report_all(r.violations);
            }
            (hists, steps)
        })
        .collect();
    NStats { histories: totals.iter().map(|t| t.0).sum(), steps: totals.iter().map(|t| t.1).sum() }
}

/// (c) path spellings.
pub fn spellings(ctx: &Ctx, version: u16) -> NStats {
    let stream_spellings = ["/a/b", "a/b", "/a/b/", "a/./b", "/a/x/../b", "./a/b", "a//b", "/a/../a/b", "/A/B", "a/B/."];
    let storage_spellings = ["/a", "a", "/a/", "./a", "/a/b/..", "a/.", "/x/../a", "/A"];
    let escaping = ["..", "/..", "a/../..", "/a/b/../../..", "../a"];
    let setup = vec![Op::CreateStorage("/a".into()), Op::Rewrite("/a/b".into(), 10)];
    let mut extra: Vec<String> = Vec::new();
    extra.extend(stream_spellings.iter().map(|s| s.to_string()));
    extra.extend(storage_spellings.iter().map(|s| s.to_string()));
    extra.extend(escaping.iter().map(|s| s.to_string()));
    let mut hists = Vec::new();
    let mut push = |ops_: Vec<Op>| {
        let mut o = setup.clone();
        o.extend(ops_);
        let n = o.len();
        hists.push(History { version, seed: "fresh".into(), ops: o, reopen_after: vec![false; n] });
    };
    for s in stream_spellings {
        for op in [Op::Rewrite(s.into(), 5), Op::SetLen(s.into(), 3), Op::SetStateBits(s.into(), 9), Op::RemoveStream(s.into()), Op::CreateNewStream(s.into()), Op::CreateStream(s.into()), Op::Append(s.into(), 2), Op::RemoveStorage(s.into()), Op::SetClsid(s.into(), [1; 16])] {
            push(vec![op]);
        }
    }
    for s in storage_spellings {
        for op in [
            Op::CreateStorage(s.into()),
            Op::SetClsid(s.into(), [3; 16]),
            Op::RemoveStorage(s.into()),
            Op::CreateStorageAll(s.into()),
            Op::RemoveStorageAll(s.into()),
            Op::SetStateBits(s.into(), 1),
            Op::SetCreated(s.into(), ops::PIN),
            Op::CreateStream(format!("{}/c", s)),
            Op::CreateStorage(format!("{}/./d", s)),
        ] {
            push(vec![op]);
        }
    }
    for s in escaping {
        for op in [
            Op::CreateStorage(s.into()),
            Op::CreateStream(s.into()),
            Op::CreateNewStream(s.into()),
            Op::CreateStorageAll(s.into()),
            Op::RemoveStream(s.into()),
            Op::RemoveStorage(s.into()),
            Op::RemoveStorageAll(s.into()),
            Op::SetStateBits(s.into(), 1),
            Op::SetClsid(s.into(), [2; 16]),
            Op::SetLen(s.into(), 1),
            Op::SetModified(s.into(), ops::PIN),
        ] {
            push(vec![op]);
        }
    }
    ctx.sample(json!({"spelling_history": hists[3]}));
    let mut st = run(ctx, hists, 1, &extra);
    // a non-UTF-8 component (cannot be written as a String path)
    let r = guarded(|| -> Result<(), String> {
        use std::ffi::OsStr;
        use std::os::unix::ffi::OsStrExt;
        let mut live = ops::Live::create(version)?;
        live.comp.create_storage("/a").map_err(|e| e.to_string())?;
        let before = live.snapshot();
        let bad = std::path::Path::new(OsStr::from_bytes(b"/a/\xff\xfe"));
        if live.comp.exists(bad) || live.comp.is_stream(bad) || live.comp.is_storage(bad) {
            return Err("boolean probe true for a non-UTF-8 path".into());
        }
        let want = std::io::ErrorKind::InvalidInput;
        let checks: Vec<(&str, Option<std::io::ErrorKind>)> = vec![
            ("entry", live.comp.entry(bad).err().map(|e| e.kind())),
            ("create_stream", live.comp.create_stream(bad).err().map(|e| e.kind())),
            ("create_new_stream", live.comp.create_new_stream(bad).err().map(|e| e.kind())),
            ("create_storage", live.comp.create_storage(bad).err().map(|e| e.kind())),
            ("create_storage_all", live.comp.create_storage_all(bad).err().map(|e| e.kind())),
            ("open_stream", live.comp.open_stream(bad).err().map(|e| e.kind())),
            ("remove_stream", live.comp.remove_stream(bad).err().map(|e| e.kind())),
            ("remove_storage", live.comp.remove_storage(bad).err().map(|e| e.kind())),
            ("read_storage", live.comp.read_storage(bad).err().map(|e| e.kind())),
            ("set_state_bits", live.comp.set_state_bits(bad, 1).err().map(|e| e.kind())),
        ];
        for (name, got) in checks {
            if got != Some(want) {
                return Err(format!("{} on a non-UTF-8 path returned {:?}, expected InvalidInput", name, got));
            }
        }
        if live.snapshot() != before {
            return Err("refused calls on a non-UTF-8 path changed the image".into());
        }
        Ok(())
    });
    st.histories += 1;
    st.steps += 10;
    let problem = match r {
        Ok(Ok(())) => None,
        Ok(Err(m)) => Some(("model".to_string(), m)),
        Err(p) => Some(("panic".to_string(), format!("non-UTF-8 path calls panicked: {}", p))),
    };
    if let Some((class, msg)) = problem {
        ctx.report(Violation { sig: format!("{}:{}", class, sig_norm(&msg)), class, msg, replay: json!({"kind": "nonutf8", "version": version}) });
    }
    st
}
