//! Violation signatures, known-findings matching, replay files, evidence.
use serde_json::{json, Value};
use std::collections::BTreeMap;
use std::sync::Mutex;
use std::time::Instant;

pub const VERIF_DIR: &str = "/verif";

/// Where evidence and replay files go (VERIF_OUT_DIR overrides, for
/// background exploration runs that must not touch the committed evidence).
pub fn out_dir() -> String {
    std::env::var("VERIF_OUT_DIR").unwrap_or_else(|_| VERIF_DIR.to_string())
}

#[derive(Clone, Debug)]
pub struct Violation {
    /// oracle class: "model", "refusal", "spec", "reopen", "panic", ...
    pub class: String,
    pub sig: String,
    pub msg: String,
    pub replay: Value,
}

/// Normalises a message into a signature fragment: digits -> '#', quoted
/// strings -> '"…"', whitespace -> '_', truncated.
pub fn sig_norm(msg: &str) -> String {
    let mut out = String::new();
    let mut in_q = false;
    let mut last_hash = false;
    for c in msg.chars() {
        if c == '"' {
            if !in_q {
                out.push_str("\"..\"");
            }
            in_q = !in_q;
            last_hash = false;
            continue;
        }
        if in_q {
            continue;
        }
        if c.is_ascii_digit() {
            if !last_hash {
                out.push('#');
                last_hash = true;
            }
            continue;
        }
        last_hash = false;
        if c.is_whitespace() {
            out.push('_');
        } else {
            out.push(c);
        }
        if out.len() > 140 {
            break;
        }
    }
    out
}

pub struct KnownFindings {
    /// (property, sig, description)
    pub known: Vec<(String, String, String)>,
}

impl KnownFindings {
    pub fn load() -> KnownFindings {
        let mut known = Vec::new();
        let path = format!("{}/KNOWN_FINDINGS.txt", VERIF_DIR);
        if let Ok(text) = std::fs::read_to_string(&path) {
            for line in text.lines() {
                let line = line.trim();
                if let Some(rest) = line.strip_prefix("known:") {
                    let mut prop = String::new();
                    let mut sig = String::new();
                    let mut desc = Vec::new();
                    for tok in rest.split_whitespace() {
                        if let Some(p) = tok.strip_prefix("property=") {
                            prop = p.to_string();
                        } else if let Some(s) = tok.strip_prefix("sig=") {
                            sig = s.to_string();
                        } else {
                            desc.push(tok);
                        }
                    }
                    if !prop.is_empty() && !sig.is_empty() {
                        known.push((prop, sig, desc.join(" ")));
                    }
                }
            }
        }
        KnownFindings { known }
    }
    pub fn lookup(&self, prop: &str, sig: &str) -> Option<&str> {
        self.known.iter().find(|(p, s, _)| p == prop && s == sig).map(|(_, _, d)| d.as_str())
    }
}

pub struct Ctx {
    pub property: String,
    pub tier: String,
    pub seed: i64,
    pub level: String,
    pub engine: String,
    pub t0: Instant,
    /// oracle classes that decide this property
    pub deciding: Vec<String>,
    pub counters: Mutex<BTreeMap<String, u64>>,
    pub samples: Mutex<Vec<Value>>,
    pub violations: Mutex<BTreeMap<String, (Violation, u64)>>,
    pub other_signals: Mutex<BTreeMap<String, (String, u64)>>,
    pub notes: Mutex<Vec<String>>,
    pub assumptions: Mutex<Vec<String>>,
    pub exhaustive: Mutex<bool>,
    pub rule: Mutex<String>,
}

impl Ctx {
    pub fn new(property: &str, tier: &str, level: &str, engine: &str, deciding: &[&str]) -> Ctx {
        let seed = std::env::var("VERIF_SEED").ok().and_then(|s| s.parse().ok()).unwrap_or(0);
        Ctx {
            property: property.to_string(),
            tier: tier.to_string(),
            seed,
            level: level.to_string(),
            engine: engine.to_string(),
            t0: Instant::now(),
            deciding: deciding.iter().map(|s| s.to_string()).collect(),
            counters: Mutex::new(BTreeMap::new()),
            samples: Mutex::new(Vec::new()),
            violations: Mutex::new(BTreeMap::new()),
            other_signals: Mutex::new(BTreeMap::new()),
            notes: Mutex::new(Vec::new()),
            assumptions: Mutex::new(Vec::new()),
            exhaustive: Mutex::new(true),
            rule: Mutex::new(String::new()),
        }
    }
    pub fn add(&self, key: &str, n: u64) {
        *self.counters.lock().unwrap().entry(key.to_string()).or_insert(0) += n;
    }
    pub fn set(&self, key: &str, n: u64) {
        self.counters.lock().unwrap().insert(key.to_string(), n);
    }
    pub fn get(&self, key: &str) -> u64 {
        self.counters.lock().unwrap().get(key).copied().unwrap_or(0)
    }
    pub fn sample(&self, v: Value) {
        let mut s = self.samples.lock().unwrap();
        if s.len() < 12 {
            s.push(v);
        }
    }
    pub fn note(&self, s: String) {
        self.notes.lock().unwrap().push(s);
    }
    pub fn assume(&self, s: &str) {
        self.assumptions.lock().unwrap().push(s.to_string());
    }
    pub fn set_rule(&self, s: &str) {
        *self.rule.lock().unwrap() = s.to_string();
    }
    pub fn not_exhaustive(&self, why: &str) {
        *self.exhaustive.lock().unwrap() = false;
        self.note(format!("not exhaustive: {}", why));
    }
    /// Records a violation.  Deciding classes become verdicts; the others
    /// are counted as signals for the property that owns them.
    pub fn report(&self, v: Violation) {
        if self.deciding.iter().any(|c| c == &v.class) || v.class == "panic" || v.class == "hang" || v.class == "machinery" {
            let mut m = self.violations.lock().unwrap();
            let e = m.entry(v.sig.clone()).or_insert_with(|| (v.clone(), 0));
            e.1 += 1;
            // keep the smallest replay (shortest history)
            if v.replay.to_string().len() < e.0.replay.to_string().len() {
                e.0 = v;
            }
        } else {
            let mut m = self.other_signals.lock().unwrap();
            let key = format!("{}:{}", v.class, v.sig);
            let e = m.entry(key).or_insert_with(|| (v.msg.clone(), 0));
            e.1 += 1;
        }
    }
    pub fn report_all(&self, vs: Vec<Violation>) {
        for v in vs {
            self.report(v);
        }
    }

    /// Writes evidence, prints verdict lines, returns the exit code.
    pub fn finish(&self, states: u64, transitions: u64) -> i32 {
        let known = KnownFindings::load();
        let viols = self.violations.lock().unwrap();
        let mut exit = 0;
        let mut n_viol = 0i64;
        let _ = std::fs::create_dir_all(format!("{}/replays", out_dir()));
        let mut viol_list = Vec::new();
        let mut known_list = Vec::new();
        for (sig, (v, count)) in viols.iter() {
            if v.class == "machinery" {
                eprintln!("MACHINERY-ERROR property={} {} : {}", self.property, sig, v.msg);
                exit = exit.max(2);
                continue;
            }
            if let Some(desc) = known.lookup(&self.property, sig) {
                println!("KNOWN-FINDING: property={} {} [sig={} occurrences={}]", self.property, desc, sig, count);
                known_list.push(json!({"sig": sig, "occurrences": count, "example": v.msg}));
                continue;
            }
            n_viol += 1;
            let h = fnv64(sig.as_bytes());
            let path = format!("{}/replays/{}-{:016x}.json", out_dir(), self.property, h);
            let doc = json!({
                "property": self.property,
                "engine": self.engine,
                "class": v.class,
                "sig": sig,
                "message": v.msg,
                "occurrences": count,
                "case": v.replay,
            });
            let _ = std::fs::write(&path, serde_json::to_string_pretty(&doc).unwrap());
            println!("VIOLATION property={} replay={}", self.property, path);
            println!("  sig={}", sig);
            println!("  {}", v.msg);
            viol_list.push(json!({"sig": sig, "occurrences": count, "message": v.msg, "replay": path}));
            exit = exit.max(1);
        }
        let counters = self.counters.lock().unwrap().clone();
        let others: Vec<Value> = self
            .other_signals
            .lock()
            .unwrap()
            .iter()
            .map(|(k, (m, c))| json!({"signal": k, "occurrences": c, "example": m}))
            .collect();
        let samples = self.samples.lock().unwrap().clone();
        let evaluations = counters.get("evaluations").copied().unwrap_or(transitions);
        let distinct = counters.get("distinct_nontrivial").copied().unwrap_or(states);
        let mut coverage = json!({
            "states": states,
            "transitions": transitions,
            "traces_validated_against_impl": transitions,
            "evaluations": evaluations,
            "distinct_nontrivial": distinct,
            "rule": self.rule.lock().unwrap().clone(),
            "samples": samples,
            "exhaustive": *self.exhaustive.lock().unwrap(),
            "counters": counters,
            "signals_for_other_properties": others,
            "notes": self.notes.lock().unwrap().clone(),
            "violation_list": viol_list,
            "known_findings_seen": known_list,
        });
        if coverage["samples"].as_array().map(|a| a.is_empty()).unwrap_or(true) {
            coverage["samples"] = json!(["(no sample recorded)"]);
        }
        let ev = json!({
            "property_id": self.property,
            "tier": self.tier,
            "seed": self.seed,
            "level": self.level,
            "coverage": coverage,
            "assumptions": self.assumptions.lock().unwrap().clone(),
            "wall_s": self.t0.elapsed().as_secs_f64(),
            "violations": n_viol,
        });
        let _ = std::fs::create_dir_all(format!("{}/evidence", out_dir()));
        let path = format!("{}/evidence/{}.json", out_dir(), self.property);
        if let Err(e) = std::fs::write(&path, serde_json::to_string_pretty(&ev).unwrap()) {
            eprintln!("cannot write evidence {}: {}", path, e);
            return 2;
        }
        println!(
            "{} tier={} states={} transitions={} violations={} wall={:.1}s exit={}",
            self.property,
            self.tier,
            states,
            transitions,
            n_viol,
            self.t0.elapsed().as_secs_f64(),
            exit
        );
        exit
    }
}

pub fn fnv64(b: &[u8]) -> u64 {
    let mut h: u64 = 0xcbf29ce484222325;
    for &x in b {
        h ^= x as u64;
        h = h.wrapping_mul(0x100000001b3);
    }
    h
}

/// 128-bit key: two independent 64-bit hashes.
pub fn key128(version: u16, image: &[u8], extra: &[u8]) -> (u64, u64) {
    use std::hash::Hasher;
    let mut h1: u64 = 0xcbf29ce484222325 ^ version as u64;
    // FNV over 8-byte words for speed
    let mut chunks = image.chunks_exact(8);
    for c in &mut chunks {
        let mut w = [0u8; 8];
        w.copy_from_slice(c);
        h1 ^= u64::from_le_bytes(w);
        h1 = h1.wrapping_mul(0x100000001b3);
        h1 ^= h1 >> 29;
    }
    for &x in chunks.remainder() {
        h1 ^= x as u64;
        h1 = h1.wrapping_mul(0x100000001b3);
    }
    for &x in extra {
        h1 ^= x as u64;
        h1 = h1.wrapping_mul(0x100000001b3);
    }
    let mut s = std::collections::hash_map::DefaultHasher::new();
    s.write_u16(version);
    s.write(image);
    s.write(extra);
    (h1, s.finish())
}
