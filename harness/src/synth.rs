//! S3: independent MS-CFB writer.  Builds a file for a given logical content
//! in a caller-chosen physical layout.  Imports nothing from `cfb`.
use crate::names;
use crate::refmodel::{Kind, Node};
use crate::spec::{DIFSECT, ENDOFCHAIN, FATSECT, FREESECT, MAGIC, NOSTREAM};
use serde::{Deserialize, Serialize};

/// Sibling tree over the children of one storage; nodes are numbered by
/// in-order rank (= rank in CFB name order).
#[derive(Clone, Debug, PartialEq, Eq, Serialize, Deserialize)]
pub struct TreeSpec {
    pub root: i32,
    /// (left, right) child rank or -1
    pub links: Vec<(i32, i32)>,
    pub red: Vec<bool>,
}

#[derive(Clone, Debug, Default, Serialize, Deserialize)]
pub struct Layout {
    pub version: u16,
    /// directory slot of the i-th node in pre-order (slot 0 = root); empty = 0,1,2,...
    pub slots: Vec<u32>,
    pub extra_dir_sectors: usize,
    /// sibling tree per storage in pre-order (storages with >= 1 child only); empty = balanced red-black
    pub trees: Vec<TreeSpec>,
    /// physical sector id of the i-th logical sector; empty = identity
    pub sector_perm: Vec<u32>,
    /// physical mini sector id of the i-th logical mini sector; empty = identity
    pub mini_perm: Vec<u32>,
    /// surplus FAT sectors (all FREESECT cells)
    pub extra_fat_sectors: usize,
    pub trailing_free_sectors: usize,
    /// free mini sectors at the end of the mini stream (covered by the root entry's length)
    #[serde(default)]
    pub trailing_free_minis: usize,
    /// byte used to fill free sectors / free mini sectors (readers must not care)
    pub free_fill: u8,
    /// header fields a conforming writer may set differently: 0 = minor version 0x3E and
    /// transaction signature 0 (what the library writes); 1 = 0x3B / 7; 2 = 0x21 / 0xFFFFFFFF;
    /// 3 = 0x00 / 1 (MS-CFB 2.2: minor version SHOULD be 0x3E; the signature MAY be any number)
    #[serde(default)]
    pub header_variant: u8,
}

pub fn sector_len(version: u16) -> usize {
    if version == 3 {
        512
    } else {
        4096
    }
}

fn preorder<'a>(n: &'a Node, out: &mut Vec<&'a Node>) {
    out.push(n);
    let mut kids: Vec<&Node> = n.children.iter().collect();
    kids.sort_by(|a, b| names::cmp(&a.name, &b.name));
    for k in kids {
        preorder(k, out);
    }
}

/// Balanced tree over ranks lo..hi with a legal red-black colouring
/// (complete levels black, the last incomplete level red).
pub fn balanced_tree(n: usize) -> TreeSpec {
    let mut links = vec![(-1, -1); n];
    let mut depth = vec![0usize; n];
    fn build(lo: usize, hi: usize, d: usize, links: &mut Vec<(i32, i32)>, depth: &mut Vec<usize>) -> i32 {
        if lo >= hi {
            return -1;
        }
        let mid = (lo + hi) / 2;
        depth[mid] = d;
        let l = build(lo, mid, d + 1, links, depth);
        let r = build(mid + 1, hi, d + 1, links, depth);
        links[mid] = (l, r);
        mid as i32
    }
    let root = build(0, n, 0, &mut links, &mut depth);
    // full levels: all depths d with 2^(d+1)-1 <= n
    let mut full = 0usize;
    while (1usize << (full + 1)) - 1 <= n {
        full += 1;
    }
    let red = depth.iter().map(|&d| d >= full).collect();
    TreeSpec { root, links, red }
}

/// All binary search tree shapes over n in-order ranks.
pub fn all_shapes(n: usize) -> Vec<(i32, Vec<(i32, i32)>)> {
    fn rec(lo: usize, hi: usize) -> Vec<(i32, Vec<(usize, (i32, i32))>)> {
        if lo >= hi {
            return vec![(-1, vec![])];
        }
        let mut out = Vec::new();
        for root in lo..hi {
            for (lr, ll) in rec(lo, root) {
                for (rr, rl) in rec(root + 1, hi) {
                    let mut links = ll.clone();
                    links.extend(rl.iter().cloned());
                    links.push((root, (lr, rr)));
                    out.push((root as i32, links));
                }
            }
        }
        out
    }
    rec(0, n)
        .into_iter()
        .map(|(root, l)| {
            let mut links = vec![(-1, -1); n];
            for (i, lr) in l {
                links[i] = lr;
            }
            (root, links)
        })
        .collect()
}

/// (no red-red, fully valid red-black) for a colouring of a shape.
pub fn colouring_props(t: &TreeSpec) -> (bool, bool) {
    let mut no_red_red = true;
    for (i, &(l, r)) in t.links.iter().enumerate() {
        if t.red[i] {
            for c in [l, r] {
                if c >= 0 && t.red[c as usize] {
                    no_red_red = false;
                }
            }
        }
    }
    fn bh(t: &TreeSpec, n: i32) -> Option<usize> {
        if n < 0 {
            return Some(1);
        }
        let (l, r) = t.links[n as usize];
        let a = bh(t, l)?;
        let b = bh(t, r)?;
        if a != b {
            return None;
        }
        Some(a + if t.red[n as usize] { 0 } else { 1 })
    }
    let valid = no_red_red && (t.root < 0 || !t.red[t.root as usize]) && bh(t, t.root).is_some();
    (no_red_red, valid)
}

pub struct Synth {
    pub bytes: Vec<u8>,
    /// number of logical sectors / logical mini sectors (for enumerating permutations)
    pub logical_sectors: usize,
    pub logical_minis: usize,
    pub total_sectors: usize,
}

fn put16(b: &mut [u8], o: usize, v: u16) {
    b[o..o + 2].copy_from_slice(&v.to_le_bytes());
}
fn put32(b: &mut [u8], o: usize, v: u32) {
    b[o..o + 4].copy_from_slice(&v.to_le_bytes());
}
fn put64(b: &mut [u8], o: usize, v: u64) {
    b[o..o + 8].copy_from_slice(&v.to_le_bytes());
}

/// Number of logical sectors and mini sectors the content needs under this
/// layout (so that callers can enumerate placements).
pub fn plan(root: &Node, l: &Layout) -> Result<(usize, usize), String> {
    synth_inner(root, l, true).map(|s| (s.logical_sectors, s.logical_minis))
}

pub fn synth(root: &Node, l: &Layout) -> Result<Vec<u8>, String> {
    synth_inner(root, l, false).map(|s| s.bytes)
}

fn synth_inner(root: &Node, l: &Layout, plan_only: bool) -> Result<Synth, String> {
    let sl = sector_len(l.version);
    let cells = sl / 4;
    let per_dir = sl / 128;
    let mut nodes: Vec<&Node> = Vec::new();
    preorder(root, &mut nodes);
    let n = nodes.len();
    let slots: Vec<u32> = if l.slots.is_empty() { (0..n as u32).collect() } else { l.slots.clone() };
    if slots.len() != n || slots[0] != 0 {
        return Err("slot map must cover every node and put the root in slot 0".into());
    }
    {
        let mut s = slots.clone();
        s.sort();
        s.dedup();
        if s.len() != n {
            return Err("slot map is not injective".into());
        }
    }
    let max_slot = *slots.iter().max().unwrap() as usize;
    let dir_sectors = (max_slot + 1 + per_dir - 1) / per_dir + l.extra_dir_sectors;

    // --- mini stream
    let mut mini_of: Vec<Vec<u32>> = vec![Vec::new(); n]; // logical mini ids per node
    let mut logical_minis = 0usize;
    for (i, nd) in nodes.iter().enumerate() {
        if nd.kind == Kind::Stream && !nd.data.is_empty() && nd.data.len() < 4096 {
            let k = (nd.data.len() + 63) / 64;
            mini_of[i] = (logical_minis as u32..(logical_minis + k) as u32).collect();
            logical_minis += k;
        }
    }
    let mini_perm: Vec<u32> = if l.mini_perm.is_empty() { (0..logical_minis as u32).collect() } else { l.mini_perm.clone() };
    if mini_perm.len() != logical_minis {
        return Err(format!("mini_perm has {} entries, content needs {}", mini_perm.len(), logical_minis));
    }
    let mini_total = mini_perm.iter().map(|&x| x as usize + 1).max().unwrap_or(0) + if logical_minis > 0 { l.trailing_free_minis } else { 0 };
    {
        let mut s = mini_perm.clone();
        s.sort();
        s.dedup();
        if s.len() != logical_minis {
            return Err("mini_perm is not injective".into());
        }
    }
    let ministream_len = mini_total * 64;
    let ministream_sectors = (ministream_len + sl - 1) / sl;
    let minifat_sectors = (mini_total + cells - 1) / cells;

    // --- logical sector list
    #[derive(Clone, Copy, PartialEq)]
    enum Role {
        Fat(usize),
        Difat(usize),
        Dir(usize),
        MiniFat(usize),
        MiniStream(usize),
        Stream(usize, usize), // node index, sector index
    }
    let mut stream_secs: Vec<(usize, usize)> = Vec::new();
    for (i, nd) in nodes.iter().enumerate() {
        if nd.kind == Kind::Stream && nd.data.len() >= 4096 {
            let k = (nd.data.len() + sl - 1) / sl;
            for j in 0..k {
                stream_secs.push((i, j));
            }
        }
    }
    let others = dir_sectors + minifat_sectors + ministream_sectors + stream_secs.len();
    // free gaps implied by the permutation are only known once L is known; iterate
    let mut nf = 1usize;
    let mut nd = 0usize;
    let (logical, total): (Vec<Role>, usize);
    loop {
        let lcount = nf + nd + others;
        let perm_max = if l.sector_perm.is_empty() { lcount } else { l.sector_perm.iter().map(|&x| x as usize + 1).max().unwrap_or(0).max(lcount) };
        let tot = perm_max + l.trailing_free_sectors;
        let need_f = (tot + cells - 1) / cells + l.extra_fat_sectors;
        let need_d = if need_f > 109 { (need_f - 109 + (cells - 2)) / (cells - 1) } else { 0 };
        if need_f == nf && need_d == nd {
            let mut v = Vec::new();
            for i in 0..nf {
                v.push(Role::Fat(i));
            }
            for i in 0..nd {
                v.push(Role::Difat(i));
            }
            for i in 0..dir_sectors {
                v.push(Role::Dir(i));
            }
            for i in 0..minifat_sectors {
                v.push(Role::MiniFat(i));
            }
            for i in 0..ministream_sectors {
                v.push(Role::MiniStream(i));
            }
            for &(a, b) in &stream_secs {
                v.push(Role::Stream(a, b));
            }
            logical = v;
            total = tot;
            break;
        }
        // when a permutation is given its length fixes nf/nd implicitly
        nf = need_f;
        nd = need_d;
        if nf > 100_000 {
            return Err("layout does not converge".into());
        }
    }
    let lcount = logical.len();
    if plan_only {
        return Ok(Synth { bytes: Vec::new(), logical_sectors: lcount, logical_minis, total_sectors: total });
    }
    let perm: Vec<u32> = if l.sector_perm.is_empty() { (0..lcount as u32).collect() } else { l.sector_perm.clone() };
    if perm.len() != lcount {
        return Err(format!("sector_perm has {} entries, layout needs {}", perm.len(), lcount));
    }
    {
        let mut s = perm.clone();
        s.sort();
        s.dedup();
        if s.len() != lcount {
            return Err("sector_perm is not injective".into());
        }
    }
    let phys = |role: Role| -> u32 { perm[logical.iter().position(|r| *r == role).unwrap()] };
    let mut b = vec![0u8; (total + 1) * sl];
    // free sectors get the fill byte
    for s in 0..total {
        if !perm.contains(&(s as u32)) {
            for x in &mut b[(s + 1) * sl..(s + 2) * sl] {
                *x = l.free_fill;
            }
        }
    }
    // --- FAT contents
    let mut fat = vec![FREESECT; nf * cells];
    let chain = |fat: &mut Vec<u32>, ids: &[u32]| {
        for w in ids.windows(2) {
            fat[w[0] as usize] = w[1];
        }
        if let Some(&last) = ids.last() {
            fat[last as usize] = ENDOFCHAIN;
        }
    };
    for i in 0..nf {
        fat[phys(Role::Fat(i)) as usize] = FATSECT;
    }
    for i in 0..nd {
        fat[phys(Role::Difat(i)) as usize] = DIFSECT;
    }
    let dir_ids: Vec<u32> = (0..dir_sectors).map(|i| phys(Role::Dir(i))).collect();
    chain(&mut fat, &dir_ids);
    let minifat_ids: Vec<u32> = (0..minifat_sectors).map(|i| phys(Role::MiniFat(i))).collect();
    chain(&mut fat, &minifat_ids);
    let ministream_ids: Vec<u32> = (0..ministream_sectors).map(|i| phys(Role::MiniStream(i))).collect();
    chain(&mut fat, &ministream_ids);
    let mut start_of: Vec<u32> = vec![ENDOFCHAIN; n];
    for (i, nd_) in nodes.iter().enumerate() {
        if nd_.kind == Kind::Stream && nd_.data.len() >= 4096 {
            let k = (nd_.data.len() + sl - 1) / sl;
            let ids: Vec<u32> = (0..k).map(|j| phys(Role::Stream(i, j))).collect();
            chain(&mut fat, &ids);
            start_of[i] = ids[0];
            for (j, &s) in ids.iter().enumerate() {
                let off = (s as usize + 1) * sl;
                let lo = j * sl;
                let hi = ((j + 1) * sl).min(nd_.data.len());
                b[off..off + (hi - lo)].copy_from_slice(&nd_.data[lo..hi]);
            }
        }
    }
    for i in 0..nf {
        let off = (phys(Role::Fat(i)) as usize + 1) * sl;
        for c in 0..cells {
            put32(&mut b, off + 4 * c, fat[i * cells + c]);
        }
    }
    // --- DIFAT
    for i in 0..nd {
        let off = (phys(Role::Difat(i)) as usize + 1) * sl;
        for c in 0..cells - 1 {
            let fi = 109 + i * (cells - 1) + c;
            put32(&mut b, off + 4 * c, if fi < nf { phys(Role::Fat(fi)) } else { FREESECT });
        }
        put32(&mut b, off + 4 * (cells - 1), if i + 1 < nd { phys(Role::Difat(i + 1)) } else { ENDOFCHAIN });
    }
    // --- MiniFAT and mini stream
    let mut minifat = vec![FREESECT; minifat_sectors * cells];
    for (i, nd_) in nodes.iter().enumerate() {
        if !mini_of[i].is_empty() {
            let ids: Vec<u32> = mini_of[i].iter().map(|&m| mini_perm[m as usize]).collect();
            for w in ids.windows(2) {
                minifat[w[0] as usize] = w[1];
            }
            minifat[*ids.last().unwrap() as usize] = ENDOFCHAIN;
            start_of[i] = ids[0];
            for (j, &m) in ids.iter().enumerate() {
                let sec = ministream_ids[m as usize * 64 / sl];
                let off = (sec as usize + 1) * sl + (m as usize * 64) % sl;
                let lo = j * 64;
                let hi = ((j + 1) * 64).min(nd_.data.len());
                b[off..off + (hi - lo)].copy_from_slice(&nd_.data[lo..hi]);
            }
        }
    }
    // free mini sectors get the fill byte
    for m in 0..mini_total {
        if !mini_perm.contains(&(m as u32)) {
            let sec = ministream_ids[m * 64 / sl];
            let off = (sec as usize + 1) * sl + (m * 64) % sl;
            for x in &mut b[off..off + 64] {
                *x = l.free_fill;
            }
        }
    }
    for i in 0..minifat_sectors {
        let off = (minifat_ids[i] as usize + 1) * sl;
        for c in 0..cells {
            put32(&mut b, off + 4 * c, minifat[i * cells + c]);
        }
    }
    // --- directory
    let total_slots = dir_sectors * per_dir;
    let slot_off = |slot: usize| -> usize { (dir_ids[slot / per_dir] as usize + 1) * sl + (slot % per_dir) * 128 };
    for s in 0..total_slots {
        let o = slot_off(s);
        for x in &mut b[o..o + 128] {
            *x = 0;
        }
        put32(&mut b, o + 68, NOSTREAM);
        put32(&mut b, o + 72, NOSTREAM);
        put32(&mut b, o + 76, NOSTREAM);
    }
    // children of each storage in pre-order index space
    let mut idx_of: std::collections::HashMap<*const Node, usize> = std::collections::HashMap::new();
    for (i, nd_) in nodes.iter().enumerate() {
        idx_of.insert(*nd_ as *const Node, i);
    }
    let mut left = vec![NOSTREAM; n];
    let mut right = vec![NOSTREAM; n];
    let mut child = vec![NOSTREAM; n];
    let mut red = vec![false; n];
    let mut tree_i = 0usize;
    for (i, nd_) in nodes.iter().enumerate() {
        if nd_.kind == Kind::Stream || nd_.children.is_empty() {
            continue;
        }
        let mut kids: Vec<&Node> = nd_.children.iter().collect();
        kids.sort_by(|a, b| names::cmp(&a.name, &b.name));
        let kid_idx: Vec<usize> = kids.iter().map(|k| idx_of[&(*k as *const Node)]).collect();
        let spec = if l.trees.is_empty() { balanced_tree(kids.len()) } else { l.trees.get(tree_i).cloned().ok_or("not enough tree specs")? };
        tree_i += 1;
        if spec.links.len() != kids.len() {
            return Err(format!("tree spec for storage {} has {} nodes, storage has {} children", i, spec.links.len(), kids.len()));
        }
        child[i] = slots[kid_idx[spec.root as usize]];
        for (r, &(lft, rgt)) in spec.links.iter().enumerate() {
            let me = kid_idx[r];
            if lft >= 0 {
                left[me] = slots[kid_idx[lft as usize]];
            }
            if rgt >= 0 {
                right[me] = slots[kid_idx[rgt as usize]];
            }
            red[me] = spec.red[r];
        }
    }
    for (i, nd_) in nodes.iter().enumerate() {
        let o = slot_off(slots[i] as usize);
        let units: Vec<u16> = nd_.name.encode_utf16().collect();
        if units.len() > 31 {
            return Err("name too long".into());
        }
        for (k, u) in units.iter().enumerate() {
            put16(&mut b, o + 2 * k, *u);
        }
        put16(&mut b, o + 64, (units.len() as u16 + 1) * 2);
        b[o + 66] = match nd_.kind {
            Kind::Root => 5,
            Kind::Storage => 1,
            Kind::Stream => 2,
        };
        b[o + 67] = if red[i] { 0 } else { 1 };
        put32(&mut b, o + 68, left[i]);
        put32(&mut b, o + 72, right[i]);
        put32(&mut b, o + 76, child[i]);
        if nd_.kind != Kind::Stream {
            let c = &nd_.clsid;
            let disk = [c[3], c[2], c[1], c[0], c[5], c[4], c[7], c[6], c[8], c[9], c[10], c[11], c[12], c[13], c[14], c[15]];
            b[o + 80..o + 96].copy_from_slice(&disk);
            put64(&mut b, o + 100, nd_.created);
            put64(&mut b, o + 108, nd_.modified);
        }
        put32(&mut b, o + 96, nd_.state_bits);
        match nd_.kind {
            Kind::Root => {
                put32(&mut b, o + 116, if ministream_sectors > 0 { ministream_ids[0] } else { ENDOFCHAIN });
                put64(&mut b, o + 120, ministream_len as u64);
            }
            Kind::Storage => {
                put32(&mut b, o + 116, 0);
                put64(&mut b, o + 120, 0);
            }
            Kind::Stream => {
                put32(&mut b, o + 116, start_of[i]);
                put64(&mut b, o + 120, nd_.data.len() as u64);
            }
        }
    }
    // --- header
    b[0..8].copy_from_slice(&MAGIC);
    let (minor, txsig): (u16, u32) = match l.header_variant {
        1 => (0x3B, 7),
        2 => (0x21, 0xFFFF_FFFF),
        3 => (0x00, 1),
        _ => (0x3E, 0),
    };
    put16(&mut b, 24, minor);
    put16(&mut b, 26, l.version);
    put16(&mut b, 28, 0xFFFE);
    put16(&mut b, 30, if l.version == 3 { 9 } else { 12 });
    put16(&mut b, 32, 6);
    put32(&mut b, 40, if l.version == 3 { 0 } else { dir_sectors as u32 });
    put32(&mut b, 44, nf as u32);
    put32(&mut b, 48, dir_ids[0]);
    put32(&mut b, 52, txsig);
    put32(&mut b, 56, 4096);
    put32(&mut b, 60, if minifat_sectors > 0 { minifat_ids[0] } else { ENDOFCHAIN });
    put32(&mut b, 64, minifat_sectors as u32);
    put32(&mut b, 68, if nd > 0 { phys(Role::Difat(0)) } else { ENDOFCHAIN });
    put32(&mut b, 72, nd as u32);
    for i in 0..109 {
        put32(&mut b, 76 + 4 * i, if i < nf { phys(Role::Fat(i)) } else { FREESECT });
    }
    Ok(Synth { bytes: b, logical_sectors: lcount, logical_minis, total_sectors: total })
}
