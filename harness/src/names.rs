//! S3 (part): MS-CFB name rules, written from the specification (2.6.1, 2.6.4).
//! Shares no code with the library.
use std::cmp::Ordering;

pub const MAX_UNITS: usize = 31;

pub fn units(name: &str) -> Vec<u16> {
    name.encode_utf16().collect()
}

/// 2.6.1: at most 31 UTF-16 units (+ terminator), none of / \ : !
pub fn is_valid(name: &str) -> bool {
    let u = units(name);
    if u.len() > MAX_UNITS {
        return false;
    }
    !u.iter().any(|&c| c == b'/' as u16 || c == b'\\' as u16 || c == b':' as u16 || c == b'!' as u16)
}

/// Simple upper-casing of one UTF-16 code unit, by an explicit table that
/// covers the harness's name alphabets.  Surrogate halves are left alone
/// (2.6.4: "each UTF-16 code point ... converted to upper-case").
pub fn upper_unit(c: u16) -> u16 {
    match c {
        0x61..=0x7A => c - 0x20,                    // a-z
        0xE0..=0xF6 | 0xF8..=0xFE => c - 0x20,      // Latin-1 lower
        0xFF => 0x178,                              // y diaeresis
        0xB5 => 0x39C,                              // micro sign -> Greek capital mu
        0x131 => 0x49,                              // dotless i -> I
        0x17F => 0x53,                              // long s -> S
        // Latin Extended-A pairs (upper, lower) = (even, odd)
        0x100..=0x12F | 0x132..=0x137 | 0x14A..=0x177 if c & 1 == 1 => c - 1,
        // ... and (odd, even)
        0x139..=0x148 | 0x179..=0x17E if c & 1 == 0 => c - 1,
        0x3B1..=0x3C1 | 0x3C3..=0x3C9 => c - 0x20,  // Greek alpha..omega
        0x3C2 => 0x3A3,                             // final sigma
        0x430..=0x44F => c - 0x20,                  // Cyrillic a..ya
        0xFF41..=0xFF5A => c - 0x20,                // fullwidth a-z
        _ => c,
    }
}

pub fn upper_units(name: &str) -> Vec<u16> {
    units(name).into_iter().map(upper_unit).collect()
}

/// 2.6.4: shorter (in UTF-16 units) first, then by upper-cased code units.
pub fn cmp(a: &str, b: &str) -> Ordering {
    let (ua, ub) = (upper_units(a), upper_units(b));
    ua.len().cmp(&ub.len()).then_with(|| ua.cmp(&ub))
}

pub fn eq(a: &str, b: &str) -> bool {
    cmp(a, b) == Ordering::Equal
}

/// Case variants of a name, produced from the explicit table (all-upper,
/// all-lower via inverse table, and first-unit flip).
pub fn case_variants(name: &str) -> Vec<String> {
    let mut out = Vec::new();
    let up: String = name.chars().map(map_char_upper).collect();
    let low: String = name.chars().map(map_char_lower).collect();
    for v in [up, low] {
        if v != name && !out.contains(&v) {
            out.push(v);
        }
    }
    // flip only the first char
    let mut it = name.chars();
    if let Some(c0) = it.next() {
        let rest: String = it.collect();
        let f = if map_char_upper(c0) != c0 { map_char_upper(c0) } else { map_char_lower(c0) };
        let v = format!("{}{}", f, rest);
        if v != name && !out.contains(&v) {
            out.push(v);
        }
    }
    out
}

fn map_char_upper(c: char) -> char {
    let v = c as u32;
    if v <= 0xFFFF {
        char::from_u32(upper_unit(v as u16) as u32).unwrap_or(c)
    } else {
        c
    }
}

fn map_char_lower(c: char) -> char {
    let v = c as u32;
    let l = match v {
        0x41..=0x5A => v + 0x20,
        0xC0..=0xD6 | 0xD8..=0xDE => v + 0x20,
        0x178 => 0xFF,
        0x100..=0x12F | 0x132..=0x137 | 0x14A..=0x177 if v & 1 == 0 => v + 1,
        0x139..=0x148 | 0x179..=0x17E if v & 1 == 1 => v + 1,
        0x391..=0x3A1 | 0x3A3..=0x3A9 => v + 0x20,
        0x410..=0x42F => v + 0x20,
        0xFF21..=0xFF3A => v + 0x20,
        _ => v,
    };
    char::from_u32(l).unwrap_or(c)
}

/// Path normalisation re-implemented on strings: split on '/', drop empty and
/// '.', pop on '..'; escaping the root is an error.
pub fn normalise(path: &str) -> Result<Vec<String>, ()> {
    let mut names: Vec<String> = Vec::new();
    for comp in path.split('/') {
        match comp {
            "" | "." => {}
            ".." => {
                if names.pop().is_none() {
                    return Err(());
                }
            }
            other => names.push(other.to_string()),
        }
    }
    Ok(names)
}
