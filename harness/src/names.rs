//! S3 (part): MS-CFB name rules, written from the specification (2.6.1, 2.6.4).
//! Shares no code with the library.
use std::cmp::Ordering;

pub const MAX_UNITS: usize = 31;

pub fn units(name: &str) -> Vec<u16> {
    name.encode_utf16().collect()
}

/// 2.6.1: at most 31 UTF-16 units (+ terminator), none of / \ : !
pub fn is_valid(name: &str) -> bool {
    let u = units(name);
    if u.len() > MAX_UNITS {
        return false;
    }
    !u.iter().any(|&c| c == b'/' as u16 || c == b'\\' as u16 || c == b':' as u16 || c == b'!' as u16)
}

/// Simple upper-casing of one UTF-16 code unit: the BMP-wide table generated from CPython's
/// Unicode database (upper_table.rs).  Surrogate halves are left alone (2.6.4: "each UTF-16 code
/// point ... converted to upper-case"), and so is every unit without a one-character mapping.
pub fn upper_unit(c: u16) -> u16 {
    match crate::upper_table::PAIRS.binary_search_by_key(&c, |p| p.0) {
        Ok(i) => crate::upper_table::PAIRS[i].1,
        Err(_) => c,
    }
}

/// Is the table's answer for `c` confirmed by a second, independent implementation of the Unicode
/// case mappings (Rust's std)?  Units on which the two disagree (characters cased only in newer
/// Unicode versions) and units whose upper-casing is not one BMP character are not judged.
pub fn trusted_unit(c: u16) -> bool {
    if (0xD800..=0xDFFF).contains(&c) || crate::upper_table::UNJUDGED.binary_search(&c).is_ok() {
        return false;
    }
    let ch = match char::from_u32(c as u32) {
        Some(ch) => ch,
        None => return false,
    };
    let mut it = ch.to_uppercase();
    let first = it.next();
    if it.next().is_some() {
        return false;
    }
    first.map(|u| u as u32) == Some(upper_unit(c) as u32)
}

/// Every unit with the same upper-case form as `c` (itself included).
pub fn case_class(c: u16) -> Vec<u16> {
    let u = upper_unit(c);
    let mut v = vec![u];
    for p in crate::upper_table::PAIRS.iter() {
        if p.1 == u {
            v.push(p.0);
        }
    }
    v.sort();
    v.dedup();
    v
}

pub fn upper_units(name: &str) -> Vec<u16> {
    units(name).into_iter().map(upper_unit).collect()
}

/// 2.6.4: shorter (in UTF-16 units) first, then by upper-cased code units.
pub fn cmp(a: &str, b: &str) -> Ordering {
    let (ua, ub) = (upper_units(a), upper_units(b));
    ua.len().cmp(&ub.len()).then_with(|| ua.cmp(&ub))
}

pub fn eq(a: &str, b: &str) -> bool {
    cmp(a, b) == Ordering::Equal
}

/// Case variants of a name, produced from the explicit table (all-upper,
/// all-lower via inverse table, and first-unit flip).
pub fn case_variants(name: &str) -> Vec<String> {
    let mut out = Vec::new();
    let up: String = name.chars().map(map_char_upper).collect();
    let low: String = name.chars().map(map_char_lower).collect();
    for v in [up, low] {
        if v != name && !out.contains(&v) {
            out.push(v);
        }
    }
    // flip only the first char
    let mut it = name.chars();
    if let Some(c0) = it.next() {
        let rest: String = it.collect();
        let f = if map_char_upper(c0) != c0 { map_char_upper(c0) } else { map_char_lower(c0) };
        let v = format!("{}{}", f, rest);
        if v != name && !out.contains(&v) {
            out.push(v);
        }
    }
    out
}

fn map_char_upper(c: char) -> char {
    let v = c as u32;
    if v <= 0xFFFF {
        char::from_u32(upper_unit(v as u16) as u32).unwrap_or(c)
    } else {
        c
    }
}

fn map_char_lower(c: char) -> char {
    let v = c as u32;
    if v > 0xFFFF {
        return c;
    }
    let u = upper_unit(v as u16);
    // the smallest unit other than the upper-case form itself that upper-cases to it
    static LOWER: std::sync::OnceLock<std::collections::HashMap<u16, u16>> = std::sync::OnceLock::new();
    let lower = LOWER.get_or_init(|| {
        let mut m = std::collections::HashMap::new();
        for p in crate::upper_table::PAIRS.iter() {
            let e = m.entry(p.1).or_insert(p.0);
            if p.0 < *e {
                *e = p.0;
            }
        }
        m
    });
    match lower.get(&u) {
        Some(&l) => char::from_u32(l as u32).unwrap_or(c),
        None => c,
    }
}

/// Path normalisation re-implemented on strings: split on '/', drop empty and
/// '.', pop on '..'; escaping the root is an error.
pub fn normalise(path: &str) -> Result<Vec<String>, ()> {
    let mut names: Vec<String> = Vec::new();
    for comp in path.split('/') {
        match comp {
            "" | "." => {}
            ".." => {
                if names.pop().is_none() {
                    return Err(());
                }
            }
            other => names.push(other.to_string()),
        }
    }
    Ok(names)
}
