//! E3: one stream handle as a seekable byte array (C06, part of C10).
//! All call sequences up to a depth, for every configuration, on the real
//! handle; oracle = Vec<u8> + cursor.
use crate::ops::{self, guarded, Live};
use crate::refmodel::EKind;
use crate::report::{sig_norm, Ctx, Violation};
use rayon::prelude::*;
use serde::{Deserialize, Serialize};
use serde_json::json;
use std::io::{BufRead, Read, Seek, SeekFrom, Write};

#[derive(Clone, Copy, Debug, PartialEq, Eq, Serialize, Deserialize)]
pub enum HCall {
    Read(usize),
    /// fill_buf, then consume(min(k, available))
    FillConsume(usize),
    Write(usize),
    SeekStart(u64),
    SeekEnd(i64),
    SeekCur(i64),
    /// seek(Start(len + d)) with len taken at call time
    SeekLenPlus(i64),
    SetLen(u64),
    /// set_len(len + d)
    SetLenPlus(i64),
    Flush,
    Pos,
    Len,
}

#[derive(Clone, Debug, Serialize, Deserialize)]
pub struct HandleCase {
    pub version: u16,
    pub max_buf: usize,
    pub init_len: usize,
    pub calls: Vec<HCall>,
}

const PATH: &str = "/h";

pub struct Base {
    pub version: u16,
    pub init_len: usize,
    pub image: Vec<u8>,
    pub data: Vec<u8>,
}

pub fn make_base(version: u16, init_len: usize) -> Result<Base, String> {
    let mut live = Live::create(version)?;
    let data = ops::pattern(7 + init_len as u64, init_len);
    let d2 = data.clone();
    let r = guarded(|| -> std::io::Result<()> {
        // a neighbour on each side so that foreign bytes would be noticed
        let mut a = live.comp.create_stream("/g")?;
        a.write_all(&[0xEE; 100])?;
        a.flush()?;
        drop(a);
        let mut s = live.comp.create_stream(PATH)?;
        s.write_all(&d2)?;
        s.flush()?;
        drop(s);
        let mut b = live.comp.create_stream("/i")?;
        b.write_all(&[0xDD; 5000])?;
        b.flush()
    });
    match r {
        Ok(Ok(())) => Ok(Base { version, init_len, image: live.snapshot(), data }),
        Ok(Err(e)) => Err(format!("base build failed: {}", e)),
        Err(p) => Err(format!("base build panicked: {}", p)),
    }
}

fn write_data(step: usize, n: usize) -> Vec<u8> {
    ops::pattern(1000 + step as u64 * 17 + n as u64, n)
}

/// Runs one case; returns the first problem (class, message).
pub fn run_case(base: &Base, c: &HandleCase) -> Option<(String, String)> {
    let mut live = match Live::open_buf(base.image.clone(), false, Some(c.max_buf)) {
        Ok(l) => l,
        Err(e) => return Some(("machinery".into(), e)),
    };
    let mut data = base.data.clone();
    let mut pos: u64 = 0;
    let r = guarded(|| -> Result<(), (String, String)> {
        let mut s = ops::NoDropOnPanic::new(live.comp.open_stream(PATH).map_err(|e| ("machinery".to_string(), format!("open_stream: {}", e)))?);
        for (i, call) in c.calls.iter().enumerate() {
            let bad = |m: String| ("array".to_string(), format!("call {} {:?}: {}", i, call, m));
            match *call {
                HCall::Read(n) => {
                    let mut buf = vec![0u8; n];
                    let k = s.read(&mut buf).map_err(|e| bad(format!("read failed: {}", e)))?;
                    let avail = (data.len() as u64 - pos) as usize;
                    if n == 0 || avail == 0 {
                        if k != 0 {
                            return Err(bad(format!("read returned {} with n={} avail={}", k, n, avail)));
                        }
                    } else if k == 0 || k > n.min(avail) {
                        return Err(bad(format!("read returned {} with n={} avail={} pos={}", k, n, avail, pos)));
                    }
                    if buf[..k] != data[pos as usize..pos as usize + k] {
                        let d = buf[..k].iter().zip(&data[pos as usize..]).position(|(a, b)| a != b);
                        return Err(bad(format!("read {} bytes at pos {} differ from the byte array (first diff at +{:?})", k, pos, d)));
                    }
                    pos += k as u64;
                }
                HCall::FillConsume(kc) => {
                    let avail = (data.len() as u64 - pos) as usize;
                    let (slen, ok) = {
                        let sl = s.fill_buf().map_err(|e| bad(format!("fill_buf failed: {}", e)))?;
                        let ok = sl.len() <= avail && sl == &data[pos as usize..pos as usize + sl.len().min(avail)];
                        (sl.len(), ok)
                    };
                    if (avail == 0) != (slen == 0) {
                        return Err(bad(format!("fill_buf returned {} bytes with {} available (pos {})", slen, avail, pos)));
                    }
                    if !ok {
                        return Err(bad(format!("fill_buf slice of {} bytes at pos {} differs from the byte array", slen, pos)));
                    }
                    let k = kc.min(slen);
                    s.consume(k);
                    pos += k as u64;
                }
                HCall::Write(n) => {
                    let buf = write_data(i, n);
                    let k = s.write(&buf).map_err(|e| bad(format!("write failed: {}", e)))?;
                    if (n == 0 && k != 0) || (n > 0 && (k == 0 || k > n)) {
                        return Err(bad(format!("write returned {} for {} bytes", k, n)));
                    }
                    let end = pos as usize + k;
                    if end > data.len() {
                        data.resize(end, 0);
                    }
                    data[pos as usize..end].copy_from_slice(&buf[..k]);
                    pos += k as u64;
                }
                HCall::SeekStart(_) | HCall::SeekEnd(_) | HCall::SeekCur(_) | HCall::SeekLenPlus(_) => {
                    let len = data.len() as i128;
                    let (sf, target): (SeekFrom, i128) = match *call {
                        HCall::SeekStart(t) => (SeekFrom::Start(t), t as i128),
                        HCall::SeekEnd(d) => (SeekFrom::End(d), len + d as i128),
                        HCall::SeekCur(d) => (SeekFrom::Current(d), pos as i128 + d as i128),
                        HCall::SeekLenPlus(d) => {
                            let t = len + d as i128;
                            if t < 0 {
                                (SeekFrom::End(d), t)
                            } else {
                                (SeekFrom::Start(t as u64), t)
                            }
                        }
                        _ => unreachable!(),
                    };
                    // a refusal must have no effect at all (C10): snapshot before an out-of-range seek
                    let out_of_range = target < 0 || target > len;
                    let before = if out_of_range { Some((live.mem.snapshot(), live.comp.entry(PATH).map(|e| e.len()).unwrap_or(u64::MAX))) } else { None };
                    match s.seek(sf) {
                        Ok(p) => {
                            if target < 0 || target > len {
                                return Err(bad(format!("seek outside [0, {}] (target {}) returned Ok({})", len, target, p)));
                            }
                            if p as i128 != target {
                                return Err(bad(format!("seek returned {} expected {}", p, target)));
                            }
                            pos = p;
                        }
                        Err(e) => {
                            if target >= 0 && target <= len {
                                return Err(bad(format!("seek to {} within [0, {}] failed: {}", target, len, e)));
                            }
                            if ops::ekind(&e) != EKind::InvalidInput {
                                return Err(bad(format!("out-of-range seek failed with {:?}, not InvalidInput", e.kind())));
                            }
                            // position must be unchanged (checked by the next Pos / final read)
                            let p = s.stream_position().map_err(|e| bad(format!("stream_position failed: {}", e)))?;
                            if p != pos {
                                return Err(("refusal".into(), format!("call {} {:?}: refused seek moved the position from {} to {}", i, call, pos, p)));
                            }
                            if let Some((img, elen)) = &before {
                                if live.mem.snapshot() != *img {
                                    return Err(("refusal".into(), format!("call {} {:?}: refused seek changed the underlying bytes", i, call)));
                                }
                                let now = live.comp.entry(PATH).map(|e| e.len()).unwrap_or(u64::MAX);
                                if now != *elen {
                                    return Err(("refusal".into(), format!("call {} {:?}: refused seek changed entry().len() from {} to {}", i, call, elen, now)));
                                }
                            }
                        }
                    }
                }
                HCall::SetLen(_) | HCall::SetLenPlus(_) => {
                    let n = match *call {
                        HCall::SetLen(n) => n,
                        HCall::SetLenPlus(d) => (data.len() as i128 + d as i128).max(0) as u64,
                        _ => unreachable!(),
                    };
                    if n > (1u64 << 48) {
                        // no compound file can hold a stream of this size: the call must be refused (a byte
                        // vector could not be resized either) and change nothing
                        // (the property names InvalidInput for seeks only: any error value is accepted here)
                        if s.set_len(n).is_ok() {
                            return Err(bad(format!("set_len({}) returned Ok", n)));
                        }
                    } else {
                        s.set_len(n).map_err(|e| bad(format!("set_len({}) failed: {}", n, e)))?;
                        data.resize(n as usize, 0);
                        pos = pos.min(n);
                    }
                }
                HCall::Flush => {
                    s.flush().map_err(|e| bad(format!("flush failed: {}", e)))?;
                }
                HCall::Pos => {
                    let p = s.stream_position().map_err(|e| bad(format!("stream_position failed: {}", e)))?;
                    if p != pos {
                        return Err(bad(format!("stream_position {} expected {}", p, pos)));
                    }
                }
                HCall::Len => {
                    if s.len() != data.len() as u64 {
                        return Err(bad(format!("len() {} expected {}", s.len(), data.len())));
                    }
                }
            }
            if s.len() != data.len() as u64 {
                return Err(("array".into(), format!("after call {} {:?}: len() {} expected {}", i, call, s.len(), data.len())));
            }
        }
        // position survives to the end
        let p = s.stream_position().map_err(|e| ("array".to_string(), format!("final stream_position failed: {}", e)))?;
        if p != pos {
            return Err(("array".into(), format!("final stream_position {} expected {}", p, pos)));
        }
        s.flush().map_err(|e| ("array".to_string(), format!("final flush failed: {}", e)))?;
        drop(s.0.take());
        for (path, want) in [(PATH, &data[..]), ("/g", &[0xEE; 100][..]), ("/i", &[0xDD; 5000][..])] {
            let mut f = live.comp.open_stream(path).map_err(|e| ("array".to_string(), format!("fresh handle on {}: {}", path, e)))?;
            let mut got = Vec::new();
            f.read_to_end(&mut got).map_err(|e| ("array".to_string(), format!("fresh handle read_to_end {}: {}", path, e)))?;
            if got != want {
                let d = got.iter().zip(want.iter()).position(|(a, b)| a != b);
                return Err(("array".into(), format!("fresh handle on {} reads {} bytes, byte array has {} (first diff {:?})", path, got.len(), want.len(), d)));
            }
        }
        let elen = live.comp.entry(PATH).map(|e| e.len()).unwrap_or(u64::MAX);
        if elen != data.len() as u64 {
            return Err(("array".into(), format!("entry().len() {} expected {}", elen, data.len())));
        }
        Ok(())
    });
    match r {
        Ok(Ok(())) => None,
        Ok(Err(p)) => Some(p),
        Err(p) => Some(("panic".into(), format!("handle call sequence panicked: {}", p))),
    }
}

pub fn alphabet(max_buf: usize, init_len: usize, full: bool) -> Vec<HCall> {
    let cap = max_buf.max(1024) as u64;
    let l = init_len as u64;
    let mut v = vec![
        HCall::Read(1),
        HCall::Read(100),
        HCall::Read(1024),
        HCall::Read(5000),
        HCall::FillConsume(0),
        HCall::FillConsume(1),
        HCall::FillConsume(1_000_000),
        HCall::Write(1),
        HCall::Write(100),
        HCall::Write(1024),
        HCall::Write(1025),
        HCall::Write(5000),
        HCall::SeekStart(0),
        HCall::SeekStart(1),
        HCall::SeekStart(cap - 1),
        HCall::SeekStart(cap),
        HCall::SeekStart(cap + 1),
        HCall::SeekLenPlus(-1),
        HCall::SeekLenPlus(0),
        HCall::SeekLenPlus(1),
        HCall::SeekEnd(0),
        HCall::SeekEnd(-1),
        HCall::SeekEnd(1),
        HCall::SeekEnd(i64::MIN),
        HCall::SeekCur(0),
        HCall::SeekCur(-1),
        HCall::SeekCur(1),
        HCall::SeekCur(-1024),
        HCall::SeekCur(i64::MIN),
        HCall::SeekCur(i64::MAX),
        HCall::SeekStart(u64::MAX),
        HCall::SetLen(0),
        HCall::SetLen(64),
        HCall::SetLen(4096),
        HCall::SetLen(u64::MAX),
        HCall::SetLenPlus(-1),
        HCall::SetLenPlus(1),
        HCall::Flush,
        HCall::Pos,
    ];
    if full {
        v.extend([
            HCall::Read(0),
            HCall::Read(1023),
            HCall::Read(1025),
            HCall::Read(3000),
            HCall::FillConsume(1024),
            HCall::FillConsume(100),
            HCall::Write(0),
            HCall::Write(1023),
            HCall::Write(3000),
            HCall::SeekStart(l / 2),
            HCall::SeekStart(63),
            HCall::SeekStart(64),
            HCall::SeekStart(4095),
            HCall::SeekStart(4096),
            HCall::SeekEnd(-1024),
            HCall::SeekEnd(-1025),
            HCall::SeekEnd(i64::MAX),
            HCall::SeekEnd(i64::MIN + 1),
            HCall::SeekCur(1024),
            HCall::SeekCur(-(cap as i64)),
            HCall::SeekCur(cap as i64),
            HCall::SeekCur(i64::MIN + 1),
            HCall::SetLen(1),
            HCall::SetLen(63),
            HCall::SetLen(1024),
            HCall::SetLen(4095),
            HCall::SetLen(4097),
            HCall::SetLen(9000),
            HCall::Len,
        ]);
    }
    v
}

pub struct E3Stats {
    pub sequences: u64,
    pub calls: u64,
    pub configs: u64,
}

pub fn explore(ctx: &Ctx, versions: &[u16], bufs: &[usize], lens: &[usize], depth: usize, full: bool) -> E3Stats {
    explore_alpha(ctx, versions, bufs, lens, depth, &|max_buf, init_len| alphabet(max_buf, init_len, full))
}

/// Calls around resizing through one handle (C08: what a grown region shows through the handle
/// that resized it, and afterwards through a fresh one).
pub fn resize_alphabet(_max_buf: usize, _init_len: usize) -> Vec<HCall> {
    vec![
        HCall::FillConsume(0),
        HCall::Read(100),
        HCall::Read(5000),
        HCall::Write(100),
        HCall::SeekStart(0),
        HCall::SeekStart(70),
        HCall::SeekEnd(0),
        HCall::SetLen(0),
        HCall::SetLen(64),
        HCall::SetLen(100),
        HCall::SetLen(4096),
        HCall::SetLen(u64::MAX),
        HCall::SetLenPlus(-1),
        HCall::SetLenPlus(1),
        HCall::SetLenPlus(600),
        HCall::Flush,
    ]
}

pub fn explore_alpha(ctx: &Ctx, versions: &[u16], bufs: &[usize], lens: &[usize], depth: usize, alpha_of: &(dyn Fn(usize, usize) -> Vec<HCall> + Sync)) -> E3Stats {
    let mut stats = E3Stats { sequences: 0, calls: 0, configs: 0 };
    for &version in versions {
        for &init_len in lens {
            let base = match make_base(version, init_len) {
                Ok(b) => b,
                Err(e) => {
                    ctx.report(Violation { class: "machinery".into(), sig: "e3base".into(), msg: e, replay: json!(null) });
                    continue;
                }
            };
            for &max_buf in bufs {
                stats.configs += 1;
                let alpha = alpha_of(max_buf, init_len);
                let n = alpha.len();
                // all sequences of length 1..=depth; parallel over the first two calls
                let firsts: Vec<usize> = (0..n).collect();
                let (seqs, calls): (u64, u64) = firsts
                    .par_iter()
                    .map(|&f| {
                        let mut cnt = (0u64, 0u64);
                        let mut seq = vec![alpha[f]];
                        rec(ctx, &base, max_buf, &alpha, &mut seq, depth, &mut cnt);
                        cnt
                    })
                    .reduce(|| (0, 0), |a, b| (a.0 + b.0, a.1 + b.1));
                stats.sequences += seqs;
                stats.calls += calls;
                if stats.configs <= 3 {
                    ctx.sample(json!({"handle_case": HandleCase { version, max_buf, init_len, calls: vec![alpha[0], alpha[n / 2], alpha[n - 1]] }}));
                }
            }
        }
    }
    stats
}

fn rec(ctx: &Ctx, base: &Base, max_buf: usize, alpha: &[HCall], seq: &mut Vec<HCall>, depth: usize, calls: &mut (u64, u64)) {
    let case = HandleCase { version: base.version, max_buf, init_len: base.init_len, calls: seq.clone() };
    calls.0 += 1;
    calls.1 += seq.len() as u64;
    if let Some((class, msg)) = run_case(base, &case) {
        // a failing prefix fails all its extensions the same way: do not extend
        let core = msg.splitn(2, ": ").nth(1).unwrap_or(&msg).to_string();
        ctx.report(Violation { sig: format!("{}:{}", class, sig_norm(&core)), class, msg, replay: json!({"kind": "handle", "handle": case}) });
        return;
    }
    if seq.len() < depth {
        for &c in alpha {
            seq.push(c);
            rec(ctx, base, max_buf, alpha, seq, depth, calls);
            seq.pop();
        }
    }
}

// ---------------------------------------------------------------------- //
// C10 with two handles on one stream: a refused call on one handle, after the stream was changed
// through the other, must leave every later result as if it had not been made (differential oracle:
// the same history with and without the refused call)

#[derive(Clone, Debug, Serialize, Deserialize)]
pub struct TwoHandleCase {
    pub version: u16,
    pub initial: usize,
    /// what handle `a` does first: 0 = seek(Start(50)), 1 = read 10 bytes, 2 = write 5 bytes (unflushed)
    pub pre: u8,
    /// what happens through handle `b`: 0 nothing, 1 set_len(10), 2 set_len(initial + 200), 3 append 30 bytes + flush
    pub other: u8,
    /// the refused call on `a`: 0 set_len(u64::MAX), 1 seek(Start(u64::MAX)), 2 seek(Current(i64::MIN)), 3 seek(End(1))
    pub refused: u8,
    pub with_refused: bool,
}

/// Returns (the refused call was refused with InvalidInput, observations afterwards) or a machinery problem.
pub fn run_two_handle_case(c: &TwoHandleCase) -> Result<(bool, Vec<String>), String> {
    guarded(|| -> Result<(bool, Vec<String>), String> {
        let mut l = Live::create(c.version)?;
        {
            let mut s = l.comp.create_stream("/s").map_err(|e| e.to_string())?;
            s.write_all(&ops::pattern(11, c.initial)).map_err(|e| e.to_string())?;
            s.flush().map_err(|e| e.to_string())?;
        }
        let mut a = ops::NoDropOnPanic::new(l.comp.open_stream("/s").map_err(|e| e.to_string())?);
        let mut b = ops::NoDropOnPanic::new(l.comp.open_stream("/s").map_err(|e| e.to_string())?);
        match c.pre {
            0 => {
                let _ = a.seek(SeekFrom::Start(50.min(c.initial as u64)));
            }
            1 => {
                let mut t = [0u8; 10];
                let _ = a.read(&mut t);
            }
            _ => {
                let _ = a.write(&[0x61; 5]);
            }
        }
        match c.other {
            1 => {
                let _ = b.set_len(10);
            }
            2 => {
                let _ = b.set_len(c.initial as u64 + 200);
            }
            3 => {
                let _ = b.seek(SeekFrom::End(0));
                let _ = b.write_all(&[0x62; 30]);
                let _ = b.flush();
            }
            _ => {}
        }
        let mut was_refused = false;
        if c.with_refused {
            let r = match c.refused {
                0 => a.set_len(u64::MAX).map(|_| 0u64),
                1 => a.seek(SeekFrom::Start(u64::MAX)),
                2 => a.seek(SeekFrom::Current(i64::MIN)),
                _ => a.seek(SeekFrom::End(1)),
            };
            was_refused = matches!(&r, Err(e) if e.kind() == std::io::ErrorKind::InvalidInput);
        }
        let mut obs = Vec::new();
        obs.push(format!("len={}", a.len()));
        obs.push(format!("pos={:?}", a.stream_position().map_err(|e| e.kind())));
        let mut t = [0u8; 20];
        obs.push(format!("read={:?}", a.read(&mut t).map(|k| t[..k].to_vec()).map_err(|e| e.kind())));
        obs.push(format!("seek_end={:?}", a.seek(SeekFrom::End(0)).map_err(|e| e.kind())));
        obs.push(format!("write={:?}", a.write_all(b"tail").map_err(|e| e.kind())));
        obs.push(format!("flush={:?}", a.flush().map_err(|e| e.kind())));
        drop(a);
        drop(b);
        let mut got = Vec::new();
        let fin = l.comp.open_stream("/s").and_then(|mut s| s.read_to_end(&mut got)).map_err(|e| e.kind());
        obs.push(format!("final={:?} {:016x} len {}", fin, crate::report::fnv64(&got), got.len()));
        obs.push(format!("image={:016x}", crate::report::fnv64(&l.snapshot())));
        Ok((was_refused, obs))
    })
    .unwrap_or_else(|p| Err(format!("PANIC: {}", p)))
}

pub fn explore_two_handle_refusals(ctx: &Ctx) -> (u64, u64) {
    let mut cases = Vec::new();
    for version in [3u16, 4] {
        for initial in [100usize, 5000] {
            for pre in 0..3u8 {
                for other in 0..4u8 {
                    for refused in 0..4u8 {
                        cases.push(TwoHandleCase { version, initial, pre, other, refused, with_refused: true });
                    }
                }
            }
        }
    }
    let n: Vec<u64> = cases
        .par_iter()
        .map(|c| {
            let without = TwoHandleCase { with_refused: false, ..c.clone() };
            match (run_two_handle_case(c), run_two_handle_case(&without)) {
                (Ok((true, with)), Ok((_, base))) => {
                    if with != base {
                        let d = with.iter().zip(base.iter()).find(|(a, b)| a != b).map(|(a, b)| format!("{} vs {}", a, b)).unwrap_or_default();
                        ctx.report(Violation {
                            class: "refusal".into(),
                            sig: format!("refusal:two-handles:refused-call-{}:later_results_differ", c.refused),
                            msg: format!("two handles on one stream: after a call refused with InvalidInput on one handle its later results differ from the same history without that call: {} [{:?}]", d, c),
                            replay: json!({"kind": "two_handles", "two_handles": c}),
                        });
                    }
                }
                (Ok((false, _)), _) => {} // not refused: nothing to judge here
                (Err(e), _) | (_, Err(e)) => {
                    let class = if e.contains("PANIC") { "panic" } else { "machinery" };
                    ctx.report(Violation { class: class.into(), sig: format!("{}:two-handles:{}", class, sig_norm(&e).chars().take(60).collect::<String>()), msg: format!("{} [{:?}]", e, c), replay: json!({"kind": "two_handles", "two_handles": c}) });
                }
            }
            2
        })
        .collect();
    (cases.len() as u64, n.iter().sum())
}
