//! E6: controlled scheduler over the crate's one RwLock (C14).
//! Real threads run the real methods one at a time (baton passing); every
//! lock acquisition request is a scheduling point; the scheduler owns a model
//! of the lock under two priority policies and explores all interleavings by
//! deviation(preemption)-bounded depth-first search over choice sequences.
use crate::backend::MemFile;
use crate::ops::{self, guarded};
use crate::report::{Ctx, Violation};
use cfb::verif::{set_thread_observer, LockKind, LockObserver};
use cfb::CompoundFile;
use serde::{Deserialize, Serialize};
use serde_json::json;
use std::collections::BTreeSet;
use std::io::{Read, Seek, SeekFrom, Write};
use std::sync::atomic::{AtomicUsize, Ordering};
use std::sync::{Arc, Condvar, Mutex};

#[derive(Clone, Copy, Debug, PartialEq, Eq, Serialize, Deserialize)]
pub enum Policy {
    /// a read request is granted whenever no writer holds the lock
    ReaderPreferring,
    /// a read request is also blocked while a writer is waiting (what
    /// std's futex-based RwLock does on Linux)
    WriterPreferring,
}

#[derive(Clone, Copy, Debug, PartialEq, Eq)]
enum Pending {
    Start,
    Read,
    WriteAnnounce,
    WriteWait,
    /// a non-blocking attempt (try_read / try_write): always schedulable, the outcome is decided when
    /// the thread is chosen
    TryRead,
    TryWrite,
    /// a blocking request that has already been granted in the model (another thread's non-blocking
    /// attempt was made to fail because this thread "got there first"); the thread takes the real lock
    /// when it is scheduled next
    PreGranted,
}

#[derive(Clone, Copy, Debug, PartialEq, Eq)]
enum Status {
    NotStarted,
    Parked(Pending),
    Running,
    Finished,
}

#[derive(Clone, Debug, Serialize, Deserialize)]
pub struct Point {
    pub enabled: Vec<usize>,
    pub chosen: usize,
    /// the previously running thread was still enabled (choosing another
    /// thread is a preemption)
    pub running_enabled: bool,
}

struct St {
    status: Vec<Status>,
    current: Option<usize>,
    last_running: Option<usize>,
    /// one model per lock (keyed by the lock's address): read guards held per thread, write holder,
    /// announced writers
    locks: std::collections::BTreeMap<usize, LockSt>,
    /// the lock each thread's pending request is for
    pend_addr: Vec<usize>,
    policy: Policy,
    prefix: Vec<usize>,
    trace: Vec<Point>,
    abort: Option<String>,
    diverged: Option<String>,
    steps: u64,
}

#[derive(Clone, Default)]
struct LockSt {
    readers: Vec<u32>,
    writer: Option<usize>,
    waiting: BTreeSet<usize>,
}

impl LockSt {
    fn free(&self) -> bool {
        self.writer.is_none() && self.readers.iter().all(|&r| r == 0)
    }
}

pub struct Sched {
    m: Mutex<St>,
    /// one condition variable per thread: only the chosen thread is woken
    cvs: Vec<Condvar>,
}

impl Sched {
    fn wake(&self, st: &St) {
        if st.abort.is_some() {
            for c in &self.cvs {
                c.notify_all();
            }
        } else if let Some(t) = st.current {
            self.cvs[t].notify_all();
        }
    }
}

const ABORT_MSG: &str = "sched-abort";

impl St {
    fn lk(&self, addr: usize) -> LockSt {
        self.locks.get(&addr).cloned().unwrap_or_else(|| LockSt { readers: vec![0; self.status.len()], writer: None, waiting: BTreeSet::new() })
    }
    fn lkm(&mut self, addr: usize) -> &mut LockSt {
        let n = self.status.len();
        self.locks.entry(addr).or_insert_with(|| LockSt { readers: vec![0; n], writer: None, waiting: BTreeSet::new() })
    }
    fn enabled(&self, t: usize) -> bool {
        let l = self.lk(self.pend_addr[t]);
        match self.status[t] {
            Status::Parked(Pending::Start) | Status::Parked(Pending::WriteAnnounce) | Status::Parked(Pending::TryRead) | Status::Parked(Pending::TryWrite) | Status::Parked(Pending::PreGranted) => true,
            Status::Parked(Pending::Read) => l.writer.is_none() && (self.policy == Policy::ReaderPreferring || l.waiting.is_empty()),
            Status::Parked(Pending::WriteWait) => l.free(),
            _ => false,
        }
    }

    /// Called when no thread is running: picks the next thread.
    fn decide(&mut self) {
        if self.abort.is_some() {
            return;
        }
        if self.status.iter().any(|s| *s == Status::NotStarted || *s == Status::Running) {
            return; // someone is still on its way to a scheduling point
        }
        let mut enabled: Vec<usize> = Vec::new();
        let mut running_enabled = false;
        if let Some(l) = self.last_running {
            if self.enabled(l) {
                enabled.push(l);
                running_enabled = true;
            }
        }
        for t in 0..self.status.len() {
            if Some(t) != self.last_running && self.enabled(t) {
                enabled.push(t);
            }
        }
        if enabled.is_empty() {
            if self.status.iter().all(|s| *s == Status::Finished) {
                self.current = None;
                return;
            }
            let mut desc = String::from("deadlock: ");
            for (t, s) in self.status.iter().enumerate() {
                let mut holds = String::new();
                for (li, (_, l)) in self.locks.iter().enumerate() {
                    if l.readers[t] > 0 || l.writer == Some(t) {
                        holds.push_str(&format!(" lock#{}: {} read guard(s){}", li, l.readers[t], if l.writer == Some(t) { " + write guard" } else { "" }));
                    }
                }
                let wants = self.locks.keys().position(|a| *a == self.pend_addr[t]).map(|i| format!(" wants lock#{}", i)).unwrap_or_default();
                desc.push_str(&format!("[thread {} {:?}{} holds{}] ", t, s, wants, if holds.is_empty() { " nothing".to_string() } else { holds }));
            }
            for (li, (_, l)) in self.locks.iter().enumerate() {
                desc.push_str(&format!("lock#{} waiting writers {:?} ", li, l.waiting));
            }
            self.abort = Some(desc);
            return;
        }
        let idx = if enabled.len() > 1 {
            let pos = self.trace.len();
            let c = if pos < self.prefix.len() { self.prefix[pos] } else { 0 };
            if c >= enabled.len() {
                self.diverged = Some(format!("replay diverged at choice point {}: choice {} of {} enabled", pos, c, enabled.len()));
                self.abort = Some("diverged".into());
                return;
            }
            self.trace.push(Point { enabled: enabled.clone(), chosen: c, running_enabled });
            c
        } else {
            0
        };
        self.current = Some(enabled[idx]);
        self.steps += 1;
    }
}

impl Sched {
    fn new(n: usize, policy: Policy, prefix: Vec<usize>) -> Sched {
        Sched {
            m: Mutex::new(St {
                status: vec![Status::NotStarted; n],
                current: None,
                last_running: None,
                locks: Default::default(),
                pend_addr: vec![0; n],
                policy,
                prefix,
                trace: Vec::new(),
                abort: None,
                diverged: None,
                steps: 0,
            }),
            cvs: (0..n).map(|_| Condvar::new()).collect(),
        }
    }

    /// Parks thread t at a scheduling point until it is chosen.
    fn park(&self, t: usize, pending: Pending, addr: usize) {
        let mut st = self.m.lock().unwrap();
        st.status[t] = Status::Parked(pending);
        st.pend_addr[t] = addr;
        if st.current == Some(t) {
            st.current = None;
        }
        st.decide();
        self.wake(&st);
        loop {
            if st.abort.is_some() {
                drop(st);
                std::panic::panic_any(ABORT_MSG);
            }
            if st.current == Some(t) {
                match st.status[t] {
                    Status::Parked(Pending::Start) => {}
                    Status::Parked(Pending::Read) => st.lkm(addr).readers[t] += 1,
                    Status::Parked(Pending::WriteAnnounce) => {
                        if st.lk(addr).free() {
                            st.lkm(addr).writer = Some(t);
                        } else {
                            // the request is now visible to readers; wait for the grant
                            st.lkm(addr).waiting.insert(t);
                            st.status[t] = Status::Parked(Pending::WriteWait);
                            st.last_running = Some(t);
                            st.current = None;
                            st.decide();
                            self.wake(&st);
                            continue;
                        }
                    }
                    Status::Parked(Pending::WriteWait) => {
                        st.lkm(addr).waiting.remove(&t);
                        st.lkm(addr).writer = Some(t);
                    }
                    _ => {}
                }
                st.status[t] = Status::Running;
                st.last_running = Some(t);
                return;
            }
            st = self.cvs[t].wait(st).unwrap();
        }
    }

    /// A non-blocking attempt by thread t: a scheduling point; when t is chosen the outcome is decided.
    /// The attempt succeeds if the model can grant it.  It may ALSO fail whenever another thread is
    /// parked at a blocking request that could have been granted first (that thread would then hold
    /// the lock at the moment of the attempt) or, under the writer-preferring policy, at a write
    /// request that could have been announced first: that alternative is a choice point costing one
    /// preemption, and taking it grants (or announces) the rival's request in the model.
    fn park_try(&self, t: usize, kind: LockKind, addr: usize) -> bool {
        let mut st = self.m.lock().unwrap();
        st.status[t] = Status::Parked(if kind == LockKind::Read { Pending::TryRead } else { Pending::TryWrite });
        st.pend_addr[t] = addr;
        if st.current == Some(t) {
            st.current = None;
        }
        st.decide();
        self.wake(&st);
        loop {
            if st.abort.is_some() {
                drop(st);
                std::panic::panic_any(ABORT_MSG);
            }
            if st.current == Some(t) {
                let l = st.lk(addr);
                let free = l.free();
                let can_succeed = match kind {
                    LockKind::Read => l.writer.is_none() && (st.policy == Policy::ReaderPreferring || l.waiting.is_empty()),
                    LockKind::Write => free,
                };
                let n = st.status.len();
                let rival: Option<usize> = if !can_succeed {
                    None
                } else {
                    (0..n).find(|&u| {
                        u != t
                            && st.pend_addr[u] == addr
                            && match st.status[u] {
                                Status::Parked(Pending::WriteAnnounce) => free || (kind == LockKind::Read && st.policy == Policy::WriterPreferring),
                                Status::Parked(Pending::WriteWait) => free,
                                Status::Parked(Pending::Read) => kind == LockKind::Write && st.enabled(u),
                                _ => false,
                            }
                    })
                };
                let mut succeed = can_succeed;
                if let (true, Some(u)) = (can_succeed, rival) {
                    let pos = st.trace.len();
                    let c = if pos < st.prefix.len() { st.prefix[pos] } else { 0 };
                    if c >= 2 {
                        st.diverged = Some(format!("replay diverged at choice point {}: choice {} of 2 outcomes of a non-blocking attempt", pos, c));
                        st.abort = Some("diverged".into());
                        continue;
                    }
                    st.trace.push(Point { enabled: vec![t, u], chosen: c, running_enabled: true });
                    succeed = c == 0;
                    if !succeed {
                        // the rival got there first
                        match st.status[u] {
                            Status::Parked(Pending::Read) => {
                                st.lkm(addr).readers[u] += 1;
                                st.status[u] = Status::Parked(Pending::PreGranted);
                            }
                            Status::Parked(Pending::WriteAnnounce) if !free => {
                                st.lkm(addr).waiting.insert(u);
                                st.status[u] = Status::Parked(Pending::WriteWait);
                            }
                            _ => {
                                st.lkm(addr).waiting.remove(&u);
                                st.lkm(addr).writer = Some(u);
                                st.status[u] = Status::Parked(Pending::PreGranted);
                            }
                        }
                    }
                }
                if succeed {
                    match kind {
                        LockKind::Read => st.lkm(addr).readers[t] += 1,
                        LockKind::Write => st.lkm(addr).writer = Some(t),
                    }
                }
                st.status[t] = Status::Running;
                st.last_running = Some(t);
                return succeed;
            }
            st = self.cvs[t].wait(st).unwrap();
        }
    }

    fn release(&self, t: usize, kind: LockKind, addr: usize) {
        let mut st = self.m.lock().unwrap();
        let l = st.lkm(addr);
        match kind {
            LockKind::Read => {
                if l.readers[t] > 0 {
                    l.readers[t] -= 1;
                }
            }
            LockKind::Write => {
                if l.writer == Some(t) {
                    l.writer = None;
                }
            }
        }
    }

    fn finish(&self, t: usize) {
        let mut st = self.m.lock().unwrap();
        st.status[t] = Status::Finished;
        if st.current == Some(t) {
            st.current = None;
        }
        st.decide();
        self.wake(&st);
    }
}

struct Obs {
    sched: Arc<Sched>,
    t: usize,
}

impl LockObserver for Obs {
    fn before_acquire(&self, lock: usize, kind: LockKind) {
        self.sched.park(self.t, if kind == LockKind::Read { Pending::Read } else { Pending::WriteAnnounce }, lock);
    }
    fn after_acquire(&self, _lock: usize, _kind: LockKind) {}
    fn after_release(&self, lock: usize, kind: LockKind) {
        self.sched.release(self.t, kind, lock);
    }
    fn try_acquire(&self, lock: usize, kind: LockKind) -> Option<bool> {
        Some(self.sched.park_try(self.t, kind, lock))
    }
}

// ---------------------------------------------------------------------- //

#[derive(Clone, Copy, Debug, PartialEq, Eq, Serialize, Deserialize)]
pub enum WOp {
    /// write 100 bytes to /s1 (mini) + flush
    WriteSmall,
    /// append 3000 bytes to /s2 (regular) + flush
    WriteLarge,
    /// set_len /s1 to 10
    Shrink,
    /// set_len /s1 to 5000 (mini -> regular migration)
    Grow,
    /// read 200 bytes from /s2
    ReadSome,
    /// seek + write beyond the 1024 buffer (overflow write-back), no flush
    Overflow,
    /// append 12000 bytes to /s2 and flush (with the big buffer: one write-back of 12000 bytes)
    BigWrite,
    /// set_len on /bad, a stream whose entry claims 70 bytes but has no chain: the resize fails
    /// inside the library while the write lock is held (error path of a writer op)
    FailingSetLen,
}

#[derive(Clone, Copy, Debug, PartialEq, Eq, Serialize, Deserialize)]
pub enum ROp {
    Entry,
    Exists,
    IsStream,
    IsStorage,
    RootEntry,
    ReadStorage,
    ReadRoot,
    Walk,
    WalkStorage,
    /// walk(), and a lookup of every yielded entry while the iterator is still alive
    WalkLookup,
    /// recursive listing: read_root_storage(), and read_storage() of every storage it yields, inside the loop
    Recursive,
    /// walk_storage on a storage two levels down
    WalkDeep,
}

pub const ALL_WOPS: [WOp; 7] = [WOp::WriteSmall, WOp::WriteLarge, WOp::Shrink, WOp::Grow, WOp::ReadSome, WOp::Overflow, WOp::FailingSetLen];
pub const ALL_ROPS: [ROp; 12] = [ROp::Entry, ROp::Exists, ROp::IsStream, ROp::IsStorage, ROp::RootEntry, ROp::ReadStorage, ROp::ReadRoot, ROp::Walk, ROp::WalkStorage, ROp::WalkLookup, ROp::Recursive, ROp::WalkDeep];

#[derive(Clone, Debug, Serialize, Deserialize)]
pub struct SchedCase {
    pub version: u16,
    pub policy: Policy,
    pub writer: Vec<WOp>,
    pub readers: Vec<Vec<ROp>>,
    /// handles use the default 1 MiB buffer instead of the 1024-byte minimum
    #[serde(default)]
    pub big_buffer: bool,
}

impl SchedCase {
    fn max_buf(&self) -> usize {
        if self.big_buffer {
            1 << 20
        } else {
            1024
        }
    }
}

fn base_image(version: u16) -> Vec<u8> {
    let mut live = ops::Live::create(version).expect("create");
    let ts = ops::PIN.to_system_time().unwrap();
    live.comp.create_storage("/d").unwrap();
    live.comp.set_created_time("/d", ts).unwrap();
    live.comp.set_modified_time("/d", ts).unwrap();
    live.comp.create_storage("/d/e").unwrap();
    live.comp.set_created_time("/d/e", ts).unwrap();
    live.comp.set_modified_time("/d/e", ts).unwrap();
    for (p, n) in [("/d/e/y", 20usize), ("/s1", 300usize), ("/s2", 6000), ("/d/x", 10), ("/a", 0), ("/zz", 70), ("/bad", 70)] {
        let mut s = live.comp.create_stream(p).unwrap();
        s.write_all(&ops::pattern(n as u64, n)).unwrap();
        s.flush().unwrap();
    }
    // one damaged entry: /bad keeps its length but loses its chain (start sector = ENDOFCHAIN)
    let mut image = live.snapshot();
    let p = crate::spec::parse(&image).expect("parse base");
    let per = p.sector_len / 128;
    let want: Vec<u16> = "bad".encode_utf16().collect();
    let idx = p.dir.iter().position(|e| e.obj_type == 2 && e.name_units[..3] == want[..] && e.name_len == 8).expect("/bad entry");
    let off = p.sector_off(p.dir_sectors[idx / per]) + (idx % per) * 128;
    image[off + 116..off + 120].copy_from_slice(&0xFFFF_FFFEu32.to_le_bytes());
    image
}

type CF = CompoundFile<MemFile>;

fn entry_str(e: &cfb::Entry) -> String {
    let o = ops::entry_obs(e);
    format!("{}|{:?}|{}|{}", o.path, o.kind, o.len, o.state_bits)
}

/// A reader call; iteration yields one string per element.
fn do_rop(comp: &CF, op: ROp) -> Vec<String> {
    match op {
        ROp::Entry => vec![comp.entry("/s1").map(|e| entry_str(&e)).unwrap_or_else(|e| format!("Err {}", e))],
        ROp::Exists => vec![format!("{}", comp.exists("/d/x"))],
        ROp::IsStream => vec![format!("{}", comp.is_stream("/s2"))],
        ROp::IsStorage => vec![format!("{}", comp.is_storage("/d"))],
        ROp::RootEntry => vec![entry_str(&comp.root_entry())],
        ROp::ReadStorage => match comp.read_storage("/d") {
            Ok(it) => it.take(ops::WALK_LIMIT).map(|e| entry_str(&e)).collect(),
            Err(e) => vec![format!("Err {}", e)],
        },
        ROp::ReadRoot => comp.read_root_storage().take(ops::WALK_LIMIT).map(|e| entry_str(&e)).collect(),
        ROp::Walk => comp.walk().take(ops::WALK_LIMIT).map(|e| entry_str(&e)).collect(),
        ROp::WalkStorage => match comp.walk_storage("/d") {
            Ok(it) => it.take(ops::WALK_LIMIT).map(|e| entry_str(&e)).collect(),
            Err(e) => vec![format!("Err {}", e)],
        },
        ROp::WalkDeep => match comp.walk_storage("/d/e") {
            Ok(it) => it.take(ops::WALK_LIMIT).map(|e| entry_str(&e)).collect(),
            Err(e) => vec![format!("Err {}", e)],
        },
        ROp::WalkLookup => {
            let mut out = Vec::new();
            for e in comp.walk().take(ops::WALK_LIMIT) {
                out.push(entry_str(&e));
                out.push(comp.entry(e.path()).map(|x| entry_str(&x)).unwrap_or_else(|x| format!("Err {}", x)));
                out.push(format!("{}", comp.is_stream(e.path())));
            }
            out
        }
        ROp::Recursive => {
            let mut out = Vec::new();
            for e in comp.read_root_storage().take(ops::WALK_LIMIT) {
                out.push(entry_str(&e));
                if e.is_storage() {
                    match comp.read_storage(e.path()) {
                        Ok(it) => out.extend(it.take(ops::WALK_LIMIT).map(|c| entry_str(&c))),
                        Err(x) => out.push(format!("Err {}", x)),
                    }
                }
            }
            out
        }
    }
}

struct Handles {
    bad: ops::NoDropOnPanic<cfb::Stream<MemFile>>,
    s1: ops::NoDropOnPanic<cfb::Stream<MemFile>>,
    s2: ops::NoDropOnPanic<cfb::Stream<MemFile>>,
}

/// Executes one writer op as a sequence of primitive handle calls (each a
/// "whole stream operation" in the property's sense); `tick(true)` is called
/// before and `tick(false)` after every primitive call.
fn do_wop(h: &mut Handles, op: WOp, i: usize, tick: &mut dyn FnMut(bool)) -> String {
    fn prim<T>(tick: &mut dyn FnMut(bool), f: impl FnOnce() -> std::io::Result<T>) -> std::io::Result<T> {
        tick(true);
        let r = f();
        tick(false);
        r
    }
    fn write_all(s: &mut cfb::Stream<MemFile>, mut data: &[u8], tick: &mut dyn FnMut(bool)) -> std::io::Result<()> {
        while !data.is_empty() {
            let k = prim(tick, || s.write(data))?;
            if k == 0 {
                return Err(std::io::Error::new(std::io::ErrorKind::WriteZero, "write returned 0"));
            }
            data = &data[k..];
        }
        Ok(())
    }
    let r = (|| -> std::io::Result<String> {
        match op {
            WOp::WriteSmall => {
                prim(tick, || h.s1.seek(SeekFrom::Start(50)))?;
                write_all(&mut h.s1, &ops::pattern(90 + i as u64, 100), tick)?;
                prim(tick, || h.s1.flush())?;
                Ok("ok".into())
            }
            WOp::WriteLarge => {
                prim(tick, || h.s2.seek(SeekFrom::End(0)))?;
                write_all(&mut h.s2, &ops::pattern(91 + i as u64, 3000), tick)?;
                prim(tick, || h.s2.flush())?;
                Ok("ok".into())
            }
            WOp::Shrink => {
                prim(tick, || h.s1.set_len(10))?;
                Ok("ok".into())
            }
            WOp::Grow => {
                prim(tick, || h.s1.set_len(5000))?;
                Ok("ok".into())
            }
            WOp::ReadSome => {
                prim(tick, || h.s2.seek(SeekFrom::Start(100)))?;
                let mut b = vec![0u8; 200];
                let mut got = 0;
                while got < 200 {
                    let k = prim(tick, || h.s2.read(&mut b[got..]))?;
                    if k == 0 {
                        break;
                    }
                    got += k;
                }
                Ok(format!("read {} {}", got, crate::report::fnv64(&b[..got])))
            }
            WOp::Overflow => {
                prim(tick, || h.s2.seek(SeekFrom::Start(10)))?;
                write_all(&mut h.s2, &ops::pattern(92 + i as u64, 2500), tick)?;
                Ok("ok".into())
            }
            WOp::FailingSetLen => {
                let r = prim(tick, || h.bad.set_len(200));
                Ok(format!("set_len on the damaged stream: {}", if r.is_ok() { "Ok" } else { "Err" }))
            }
            WOp::BigWrite => {
                prim(tick, || h.s2.seek(SeekFrom::End(0)))?;
                write_all(&mut h.s2, &ops::pattern(93 + i as u64, 12000), tick)?;
                prim(tick, || h.s2.flush())?;
                Ok("ok".into())
            }
        }
    })();
    match r {
        Ok(s) => s,
        Err(e) => format!("Err {}", e),
    }
}

pub struct Exec {
    pub trace: Vec<Point>,
    pub deadlock: Option<String>,
    pub diverged: Option<String>,
    pub panics: Vec<String>,
    /// per reader thread, per call: (window start, window end, result elements)
    pub reader_results: Vec<Vec<(usize, usize, Vec<String>)>>,
    pub writer_results: Vec<String>,
    pub steps: u64,
}

type ReaderOut = Vec<(usize, usize, Vec<String>)>;

struct Job {
    sched: Arc<Sched>,
    comp: Arc<CF>,
    rops: Vec<ROp>,
    t: usize,
    wdone: Arc<AtomicUsize>,
    wbusy: Arc<AtomicUsize>,
    reply: std::sync::mpsc::Sender<(usize, ReaderOut, Option<String>)>,
}

/// Reader threads are created once per configuration and reused for every
/// schedule (thread creation would otherwise dominate the run time).
pub struct Pool {
    txs: Vec<std::sync::mpsc::Sender<Job>>,
}

impl Pool {
    pub fn new(n: usize) -> Pool {
        let mut txs = Vec::new();
        for _ in 0..n {
            let (tx, rx) = std::sync::mpsc::channel::<Job>();
            std::thread::Builder::new()
                .stack_size(512 * 1024)
                .spawn(move || {
                    for job in rx {
                        let Job { sched, comp, rops, t, wdone, wbusy, reply } = job;
                        let obs: Arc<dyn LockObserver> = Arc::new(Obs { sched: sched.clone(), t });
                        set_thread_observer(Some(obs));
                        let mut out: ReaderOut = Vec::new();
                        let r = guarded(|| {
                            sched.park(t, Pending::Start, 0);
                            for &op in &rops {
                                let c0 = wdone.load(Ordering::SeqCst);
                                let res = do_rop(&comp, op);
                                let c1 = wdone.load(Ordering::SeqCst) + wbusy.load(Ordering::SeqCst);
                                out.push((c0, c1, res));
                            }
                        });
                        set_thread_observer(None);
                        let panic = match r {
                            Err(p) if !p.contains(ABORT_MSG) => Some(format!("reader thread {}: {}", t, p)),
                            _ => None,
                        };
                        drop(comp);
                        sched.finish(t);
                        let _ = reply.send((t, out, panic));
                    }
                })
                .expect("spawn reader thread");
            txs.push(tx);
        }
        Pool { txs }
    }
}

/// Runs one schedule (choice prefix, then default choices) on real threads.
pub fn run_schedule(case: &SchedCase, image: &[u8], prefix: &[usize], pool: &Pool) -> Exec {
    let n = 1 + case.readers.len();
    let sched = Arc::new(Sched::new(n, case.policy, prefix.to_vec()));
    let mem = MemFile::new(image.to_vec());
    let mut comp: CF = cfb::OpenOptions::new().max_buffer_size(case.max_buf()).open_with(mem).expect("open base image");
    let mut handles = Handles { bad: ops::NoDropOnPanic::new(comp.open_stream("/bad").expect("bad")), s1: ops::NoDropOnPanic::new(comp.open_stream("/s1").expect("s1")), s2: ops::NoDropOnPanic::new(comp.open_stream("/s2").expect("s2")) };
    let comp = Arc::new(comp);
    let wdone = Arc::new(AtomicUsize::new(0)); // completed writer handle calls
    let wbusy = Arc::new(AtomicUsize::new(0)); // 1 while a writer handle call is in progress
    let mut exec = Exec { trace: Vec::new(), deadlock: None, diverged: None, panics: Vec::new(), reader_results: vec![Vec::new(); case.readers.len()], writer_results: Vec::new(), steps: 0 };
    let (reply_tx, reply_rx) = std::sync::mpsc::channel();
    for (ri, rops) in case.readers.iter().enumerate() {
        pool.txs[ri]
            .send(Job { sched: sched.clone(), comp: comp.clone(), rops: rops.clone(), t: ri + 1, wdone: wdone.clone(), wbusy: wbusy.clone(), reply: reply_tx.clone() })
            .expect("reader pool thread is gone");
    }
    drop(reply_tx);
    // the writer is this thread (it owns the handles)
    let obs: Arc<dyn LockObserver> = Arc::new(Obs { sched: sched.clone(), t: 0 });
    set_thread_observer(Some(obs));
    let mut wres = Vec::new();
    let r = guarded(|| {
        sched.park(0, Pending::Start, 0);
        for (i, &op) in case.writer.iter().enumerate() {
            let mut tick = |before: bool| {
                if before {
                    wbusy.store(1, Ordering::SeqCst);
                } else {
                    wdone.fetch_add(1, Ordering::SeqCst);
                    wbusy.store(0, Ordering::SeqCst);
                }
            };
            let s = do_wop(&mut handles, op, i, &mut tick);
            wres.push(s);
        }
    });
    set_thread_observer(None);
    if let Err(p) = r {
        if !p.contains(ABORT_MSG) {
            exec.panics.push(format!("writer thread: {}", p));
        }
    }
    sched.finish(0);
    exec.writer_results = wres;
    for _ in 0..case.readers.len() {
        match reply_rx.recv() {
            Ok((t, out, panic)) => {
                exec.reader_results[t - 1] = out;
                if let Some(p) = panic {
                    exec.panics.push(p);
                }
            }
            Err(_) => exec.panics.push("a reader thread vanished".into()),
        }
    }
    drop(handles);
    let st = sched.m.lock().unwrap();
    exec.trace = st.trace.clone();
    exec.steps = st.steps;
    exec.diverged = st.diverged.clone();
    if let Some(a) = &st.abort {
        if a != "diverged" {
            exec.deadlock = Some(a.clone());
        }
    }
    exec
}

/// Sequential reference: result of every reader op after j whole writer ops.
pub fn sequential_reference(case: &SchedCase, image: &[u8]) -> (Vec<std::collections::BTreeMap<String, Vec<String>>>, Vec<String>) {
    let mem = MemFile::new(image.to_vec());
    let mut comp: CF = cfb::OpenOptions::new().max_buffer_size(case.max_buf()).open_with(mem).expect("open base image");
    let mut handles = Handles { bad: ops::NoDropOnPanic::new(comp.open_stream("/bad").expect("bad")), s1: ops::NoDropOnPanic::new(comp.open_stream("/s1").expect("s1")), s2: ops::NoDropOnPanic::new(comp.open_stream("/s2").expect("s2")) };
    let mut table = Vec::new();
    let mut wres = Vec::new();
    let snapshot = |comp: &CF| {
        let mut m = std::collections::BTreeMap::new();
        for op in ALL_ROPS {
            m.insert(format!("{:?}", op), do_rop(comp, op));
        }
        m
    };
    table.push(snapshot(&comp));
    for (i, &op) in case.writer.iter().enumerate() {
        let r = {
            let mut tick = |before: bool| {
                if !before {
                    table.push(snapshot(&comp));
                }
            };
            do_wop(&mut handles, op, i, &mut tick)
        };
        wres.push(r);
    }
    (table, wres)
}

pub struct ConfigStats {
    pub schedules: u64,
    pub choice_points: u64,
    pub steps: u64,
    pub outcomes: BTreeSet<String>,
    pub bound_completed: Option<usize>,
    pub capped: bool,
}

/// Deviation-bounded DFS over choice sequences for one configuration.
/// Lock bookkeeping for the single-threaded reference run: a thread that asks for the lock in a
/// mode it can never get while holding it itself would block forever in the real lock.
struct SelfDeadlockObs {
    /// per lock address: (read guards, write guards) held by this thread
    held: Mutex<std::collections::BTreeMap<usize, (usize, usize)>>,
}

impl LockObserver for SelfDeadlockObs {
    fn before_acquire(&self, lock: usize, kind: LockKind) {
        let (r, w) = self.held.lock().unwrap().get(&lock).copied().unwrap_or((0, 0));
        if w > 0 || (kind != LockKind::Read && r > 0) {
            panic!("SELF-DEADLOCK: the thread requests the lock for {:?} while it holds it itself ({} read guard(s), {} write guard(s))", kind, r, w);
        }
    }
    fn after_acquire(&self, lock: usize, kind: LockKind) {
        let mut h = self.held.lock().unwrap();
        let e = h.entry(lock).or_insert((0, 0));
        if kind == LockKind::Read {
            e.0 += 1
        } else {
            e.1 += 1
        }
    }
    fn after_release(&self, lock: usize, kind: LockKind) {
        let mut h = self.held.lock().unwrap();
        let e = h.entry(lock).or_insert((0, 0));
        if kind == LockKind::Read {
            e.0 = e.0.saturating_sub(1)
        } else {
            e.1 = e.1.saturating_sub(1)
        }
    }
}

pub fn explore_config(ctx: &Ctx, case: &SchedCase, image: &[u8], max_preemptions: Option<usize>, cap: u64) -> ConfigStats {
    let mut stats = ConfigStats { schedules: 0, choice_points: 0, steps: 0, outcomes: BTreeSet::new(), bound_completed: None, capped: false };
    // the sequential reference runs the real code on this thread: a self-deadlock must not hang the check
    set_thread_observer(Some(Arc::new(SelfDeadlockObs { held: Default::default() })));
    let seq = ops::guarded(|| sequential_reference(case, image));
    set_thread_observer(None);
    let (table, wref) = match seq {
        Ok(x) => x,
        Err(p) => {
            let class = if p.contains("SELF-DEADLOCK") { "deadlock" } else { "panic" };
            ctx.report(Violation {
                class: class.into(),
                sig: format!("{}:sequential:{}", class, crate::report::sig_norm(&p).chars().take(80).collect::<String>()),
                msg: format!("single-threaded run of writer {:?} / readers {:?}: {}", case.writer, case.readers, p),
                replay: json!({"kind": "sched", "sched": case, "choices": []}),
            });
            stats.bound_completed = max_preemptions;
            return stats;
        }
    };
    let pool = Pool::new(case.readers.len());
    let mut stack: Vec<Vec<usize>> = vec![vec![]];
    while let Some(prefix) = stack.pop() {
        if stats.schedules >= cap {
            stats.capped = true;
            break;
        }
        crate::watch::enter(json!({"kind": "sched", "sched": case, "choices": prefix}));
        let ex = run_schedule(case, image, &prefix, &pool);
        crate::watch::leave();
        stats.schedules += 1;
        stats.choice_points += ex.trace.len() as u64;
        stats.steps += ex.steps;
        let choices: Vec<usize> = ex.trace.iter().map(|p| p.chosen).collect();
        let replay = json!({"kind": "sched", "sched": case, "choices": choices});
        let mut fail = |class: &str, sig: String, msg: String| {
            ctx.report(Violation { class: class.into(), sig, msg: format!("{} [policy {:?}, writer {:?}, readers {:?}, schedule {:?}]", msg, case.policy, case.writer, case.readers, choices), replay: replay.clone() });
        };
        if let Some(d) = &ex.diverged {
            fail("machinery", "sched-diverged".into(), d.clone());
            break;
        }
        if let Some(d) = &ex.deadlock {
            let who: Vec<String> = case.readers.iter().flatten().map(|r| format!("{:?}", r)).collect();
            fail("deadlock", format!("deadlock:{:?}:reader-ops={}", case.policy, who.join("+")), d.clone());
        }
        for p in &ex.panics {
            fail("panic", format!("panic:{}", crate::report::sig_norm(p)), p.clone());
        }
        if ex.deadlock.is_none() && ex.panics.is_empty() {
            // every result within the window of sequential results
            if ex.writer_results != wref {
                fail("window", "window:writer-results".into(), format!("writer results {:?} differ from sequential {:?}", ex.writer_results, wref));
            }
            for (ri, calls) in ex.reader_results.iter().enumerate() {
                if calls.len() != case.readers[ri].len() {
                    fail("window", "window:incomplete".into(), format!("reader {} completed {} of {} calls", ri + 1, calls.len(), case.readers[ri].len()));
                    continue;
                }
                for (ci, (c0, c1, res)) in calls.iter().enumerate() {
                    let op = format!("{:?}", case.readers[ri][ci]);
                    let hi = (*c1).min(table.len() - 1);
                    let ok_len = (*c0..=hi).any(|j| table[j][&op].len() == res.len());
                    let ok = ok_len && res.iter().enumerate().all(|(k, el)| (*c0..=hi).any(|j| table[j][&op].get(k) == Some(el)));
                    if !ok {
                        fail(
                            "window",
                            format!("window:{}", op),
                            format!("reader {} call {} {} returned {:?}, not the result after any whole number of writer ops in [{}, {}]: {:?}", ri + 1, ci, op, res, c0, hi, (*c0..=hi).map(|j| table[j][&op].clone()).collect::<Vec<_>>()),
                        );
                    }
                }
            }
        }
        let mut outcome = String::new();
        for calls in &ex.reader_results {
            for (_, _, r) in calls {
                outcome.push_str(&format!("{:x};", crate::report::fnv64(r.join(",").as_bytes())));
            }
        }
        if ex.deadlock.is_some() {
            outcome.push_str("DEADLOCK");
        }
        stats.outcomes.insert(outcome);
        // children: alternatives at every point at or after the prefix end
        let mut preempts = 0usize;
        for (i, p) in ex.trace.iter().enumerate() {
            if i >= prefix.len() {
                for alt in 1..p.enabled.len() {
                    let cost = preempts + if p.running_enabled { 1 } else { 0 };
                    if max_preemptions.map(|b| cost <= b).unwrap_or(true) {
                        let mut child: Vec<usize> = ex.trace[..i].iter().map(|q| q.chosen).collect();
                        child.push(alt);
                        stack.push(child);
                    }
                }
            }
            if p.running_enabled && p.chosen != 0 {
                preempts += 1;
            }
        }
    }
    if !stats.capped {
        stats.bound_completed = Some(max_preemptions.unwrap_or(usize::MAX));
    }
    stats
}

pub fn image_for(version: u16) -> Vec<u8> {
    base_image(version)
}
