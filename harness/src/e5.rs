//! E5: corruption enumeration in isolated worker processes (C05, C11, and
//! the strict-implies-permissive clause of C16).
//!
//! The master splits the case index range of every base file over worker
//! processes.  A worker announces each case index before running it, so a
//! stall (watchdog), an abort or an allocation failure is attributed to one
//! case, confirmed by re-running that case alone, and the range continues in
//! a fresh worker.
use crate::ops::{self, guarded, Live};
use crate::refmodel::Kind;
use crate::report::{sig_norm, Ctx, Violation};
use crate::spec;
use crate::synth::{self, Layout};
use serde::{Deserialize, Serialize};
use serde_json::json;
use std::alloc::{GlobalAlloc, Layout as ALayout, System};
use std::io::{BufRead, BufReader, Read, Seek, SeekFrom, Write};
use std::sync::atomic::{AtomicBool, AtomicUsize, Ordering};

// ---------------------------------------------------------------------- //
// counting allocator (accounting only in worker processes)

pub struct CountingAlloc;
static LIVE: AtomicUsize = AtomicUsize::new(0);
static PEAK: AtomicUsize = AtomicUsize::new(0);
static COUNTING: AtomicBool = AtomicBool::new(false);
const HARD_CAP: usize = 2 << 30;

unsafe impl GlobalAlloc for CountingAlloc {
    unsafe fn alloc(&self, l: ALayout) -> *mut u8 {
        if COUNTING.load(Ordering::Relaxed) {
            let now = LIVE.fetch_add(l.size(), Ordering::Relaxed) + l.size();
            if now > HARD_CAP {
                LIVE.fetch_sub(l.size(), Ordering::Relaxed);
                return std::ptr::null_mut();
            }
            PEAK.fetch_max(now, Ordering::Relaxed);
        }
        System.alloc(l)
    }
    unsafe fn dealloc(&self, p: *mut u8, l: ALayout) {
        if COUNTING.load(Ordering::Relaxed) {
            // saturating: memory allocated before counting started may be freed now
            let _ = LIVE.fetch_update(Ordering::Relaxed, Ordering::Relaxed, |v| Some(v.saturating_sub(l.size())));
        }
        System.dealloc(p, l)
    }
    unsafe fn realloc(&self, p: *mut u8, l: ALayout, new: usize) -> *mut u8 {
        if COUNTING.load(Ordering::Relaxed) {
            if new > l.size() {
                let d = new - l.size();
                let now = LIVE.fetch_add(d, Ordering::Relaxed) + d;
                if now > HARD_CAP {
                    LIVE.fetch_sub(d, Ordering::Relaxed);
                    return std::ptr::null_mut();
                }
                PEAK.fetch_max(now, Ordering::Relaxed);
            } else {
                let d = l.size() - new;
                let _ = LIVE.fetch_update(Ordering::Relaxed, Ordering::Relaxed, |v| Some(v.saturating_sub(d)));
            }
        }
        System.realloc(p, l, new)
    }
}

fn peak_reset() -> usize {
    let live = LIVE.load(Ordering::Relaxed);
    PEAK.store(live, Ordering::Relaxed);
    live
}
fn peak_get() -> usize {
    PEAK.load(Ordering::Relaxed)
}

// ---------------------------------------------------------------------- //
// base files

fn lib_base(version: u16, ops_: &[ops::Op]) -> Vec<u8> {
    let mut r = crate::runner::Runner::fresh(version).expect("fresh");
    for op in ops_ {
        let rep = r.step(op, &crate::runner::Oracles::LIGHT, &[]);
        assert!(rep.problems.is_empty(), "base op {:?} failed: {:?}", op, rep.problems);
    }
    r.snapshot()
}

/// Deterministic base files: (id, bytes, full word sweep?)
pub fn bases(thorough: bool) -> Vec<(String, Vec<u8>, bool)> {
    use ops::Op::*;
    let mut v: Vec<(String, Vec<u8>, bool)> = Vec::new();
    for ver in [3u16, 4] {
        v.push((format!("fresh-v{}", ver), lib_base(ver, &[]), true));
        v.push((format!("tree-v{}", ver), lib_base(ver, &[CreateStorage("/d".into()), Rewrite("/d/x".into(), 100), Rewrite("/a".into(), 10), CreateStorage("/d/e".into()), CreateStream("/b".into())]), true));
        v.push((
            format!("mixed-v{}", ver),
            lib_base(ver, &[Rewrite("/mini".into(), 200), Rewrite("/big".into(), 5000), CreateStorage("/s".into()), Rewrite("/s/m2".into(), 64), Rewrite("/big2".into(), 4096), Rewrite("/tmp".into(), 300), RemoveStream("/tmp".into())]),
            ver == 3,
        ));
    }
    // two directory sectors / exactly full mini stream container / MiniFAT and FAT fill levels (write-path loops)
    v.push(("dir2-v3".into(), lib_base(3, &[Rewrite("/f0".into(), 10), CreateStream("/f1".into()), CreateStorage("/g".into()), Rewrite("/g/h".into(), 70), CreateStream("/f4".into())]), true));
    v.push(("minifull-v3".into(), lib_base(3, &[Rewrite("/m".into(), 512), Rewrite("/n".into(), 512)]), true));
    v.push(("minifat128-v3".into(), lib_base(3, &[Rewrite("/m".into(), 4032), Rewrite("/n".into(), 4032), Rewrite("/o".into(), 128)]), false));
    v.push(("fat128-v3".into(), lib_base(3, &[Rewrite("/big".into(), 63488), Rewrite("/m".into(), 64)]), false));
    // synthesised non-canonical layouts
    for (cname, ver) in [("three-mixed", 3u16), ("three-minis", 3), ("nested", 4)] {
        let root = crate::e2::content(cname, ver).unwrap();
        let base = Layout { version: ver, free_fill: 0x5A, ..Default::default() };
        let (lsec, lmini) = synth::plan(&root, &base).unwrap();
        let mut perm: Vec<u32> = (0..lsec as u32).map(|i| i * 2 + 1).collect();
        perm.reverse();
        let mut mp: Vec<u32> = (0..lmini as u32).collect();
        mp.reverse();
        let l = Layout { sector_perm: perm, mini_perm: mp, trailing_free_sectors: 1, ..base };
        v.push((format!("synth-{}-v{}", cname, ver), synth::synth(&root, &l).expect("synth"), ver == 3));
    }
    // a DIFAT sector (v3): surplus FAT sectors
    {
        let root = crate::e2::content("two-mini", 3).unwrap();
        let l = Layout { version: 3, extra_fat_sectors: 110, ..Default::default() };
        v.push(("difat-v3".into(), synth::synth(&root, &l).expect("synth"), false));
    }
    if thorough {
        v.push(("dir2-v4".into(), lib_base(4, &(0..33).map(|i| CreateStream(format!("/s{}", i))).collect::<Vec<_>>()), false));
        v.push(("minifull-v4".into(), lib_base(4, &[Rewrite("/m".into(), 4032), Rewrite("/n".into(), 64)]), false));
    }
    v
}

#[derive(Clone, Debug, PartialEq, Eq, Serialize, Deserialize)]
pub enum Mutn {
    Patch(Vec<(usize, Vec<u8>)>),
    Truncate(usize),
    Extend(usize, u8),
    /// n DIFAT sectors appended to the file, chained, every cell of which (and every DIFAT cell of the
    /// header) names the same sector `target` as a FAT sector; header counts set to match.  A small
    /// input that asks the reader to load one sector thousands of times.
    Amplify(usize, u32),
}

pub fn apply(base: &[u8], m: &Mutn) -> Vec<u8> {
    let mut b = base.to_vec();
    match m {
        Mutn::Patch(ps) => {
            for (o, d) in ps {
                if o + d.len() <= b.len() {
                    b[*o..*o + d.len()].copy_from_slice(d);
                }
            }
        }
        Mutn::Truncate(n) => b.truncate(*n),
        Mutn::Extend(n, f) => b.extend(std::iter::repeat(*f).take(*n)),
        Mutn::Amplify(n, target) => {
            if b.len() >= 512 {
                let shift = u16::from_le_bytes([b[30], b[31]]) as u32;
                let sl = 1usize << shift.min(12);
                let cells = sl / 4;
                let first_new = ((b.len() / sl).saturating_sub(1)) as u32;
                for i in 0..*n {
                    for _ in 0..cells - 1 {
                        b.extend_from_slice(&target.to_le_bytes());
                    }
                    let next = if i + 1 < *n { first_new + i as u32 + 1 } else { 0xFFFF_FFFE };
                    b.extend_from_slice(&next.to_le_bytes());
                }
                b[68..72].copy_from_slice(&first_new.to_le_bytes());
                b[72..76].copy_from_slice(&(*n as u32).to_le_bytes());
                for i in 0..109 {
                    b[76 + 4 * i..80 + 4 * i].copy_from_slice(&target.to_le_bytes());
                }
                b[44..48].copy_from_slice(&((109 + n * (cells - 1)) as u32).to_le_bytes());
            }
        }
    }
    b
}

fn vals32(own: u32, nsec: u32) -> Vec<u32> {
    let mut v = vec![0, 1, own.wrapping_add(1), own.wrapping_sub(1), nsec.wrapping_sub(1), nsec, nsec + 1, 0x7FFF_FFFF, 0xFFFF_FFFA, 0xFFFF_FFFB, 0xFFFF_FFFC, 0xFFFF_FFFD, 0xFFFF_FFFE, 0xFFFF_FFFF, 2, 3];
    v.sort();
    v.dedup();
    v.retain(|&x| x != own);
    v
}

/// Field-aware single mutations of a base file.
pub fn field_mutations(base: &[u8], full16: bool) -> Vec<Mutn> {
    let mut out: Vec<Mutn> = Vec::new();
    let p = match spec::parse(base) {
        Ok(p) => p,
        Err(_) => return out,
    };
    let sl = p.sector_len;
    let cells = sl / 4;
    let nsec = p.num_sectors;
    let p32 = |o: usize, v: u32| Mutn::Patch(vec![(o, v.to_le_bytes().to_vec())]);
    // header: 32-bit fields at 40..76 and the first DIFAT cells
    for o in (40..76).step_by(4) {
        for v in vals32(spec::u32at(base, o), nsec) {
            out.push(p32(o, v));
        }
    }
    for i in 0..(p.fat_sectors.len() + 2).min(109) {
        let o = 76 + 4 * i;
        for v in vals32(spec::u32at(base, o), nsec) {
            out.push(p32(o, v));
        }
    }
    // every 8/16-bit header field through all values
    for o in [24usize, 26, 28, 30, 32] {
        let vals: Vec<u32> = if full16 { (0..=0xFFFFu32).collect() } else { vec![0, 1, 2, 3, 4, 5, 6, 7, 8, 9, 10, 11, 12, 13, 16, 31, 32, 0x3E, 0xFF, 0x100, 0x7FFF, 0x8000, 0xFFFD, 0xFFFE, 0xFFFF, 0xFEFF] };
        for v in vals {
            if v as u16 != spec::u16at(base, o) {
                out.push(Mutn::Patch(vec![(o, (v as u16).to_le_bytes().to_vec())]));
            }
        }
    }
    for o in 0..8 {
        out.push(Mutn::Patch(vec![(o, vec![base[o] ^ 0xFF])]));
    }
    // DIFAT sectors: used cells +2, and the chain pointer
    for (k, &ds) in p.difat_sectors.iter().enumerate() {
        let off = p.sector_off(ds);
        let used = (p.fat_sectors.len().saturating_sub(109 + k * (cells - 1))).min(cells - 1);
        for c in (0..(used + 2).min(cells - 1)).chain(std::iter::once(cells - 1)) {
            let o = off + 4 * c;
            for v in vals32(spec::u32at(base, o), nsec) {
                out.push(p32(o, v));
            }
        }
    }
    // FAT cells up to sector count + 2
    for i in 0..(nsec as usize + 2).min(p.fat.len()) {
        let o = p.sector_off(p.fat_sectors[i / cells]) + 4 * (i % cells);
        for v in vals32(p.fat[i], nsec) {
            out.push(p32(o, v));
        }
    }
    // MiniFAT cells up to used + 2
    let mini_count = (p.dir[0].size / 64) as usize;
    for i in 0..(mini_count + 2).min(p.minifat.len()) {
        let o = p.sector_off(p.minifat_sectors[i / cells]) + 4 * (i % cells);
        for v in vals32(p.minifat[i], mini_count as u32) {
            out.push(p32(o, v));
        }
    }
    // directory entries
    let per = sl / 128;
    for (i, e) in p.dir.iter().enumerate() {
        let o = p.sector_off(p.dir_sectors[i / per]) + (i % per) * 128;
        let ndir = p.dir.len() as u32;
        // name length: all 16-bit values up to 130 plus extremes; a name unit
        for v in (0..=130u32).chain([0x7FFF, 0x8000, 0xFFFE, 0xFFFF]) {
            if v as u16 != e.name_len {
                out.push(Mutn::Patch(vec![(o + 64, (v as u16).to_le_bytes().to_vec())]));
            }
        }
        for v in [0u16, 0x2F, 0x5C, 0x3A, 0x21, 0xD800, 0xDC00, 0xFFFF, 0x61] {
            out.push(Mutn::Patch(vec![(o, v.to_le_bytes().to_vec())]));
        }
        // object type and colour: all 256 values
        for v in 0..=255u8 {
            if v != e.obj_type {
                out.push(Mutn::Patch(vec![(o + 66, vec![v])]));
            }
            if v != e.color {
                out.push(Mutn::Patch(vec![(o + 67, vec![v])]));
            }
        }
        for (fo, own) in [(68usize, e.left), (72, e.right), (76, e.child)] {
            let mut vs = vals32(own, ndir);
            vs.extend([i as u32, ndir.wrapping_sub(1), ndir]);
            vs.sort();
            vs.dedup();
            for v in vs {
                if v != own {
                    out.push(p32(o + fo, v));
                }
            }
        }
        out.push(Mutn::Patch(vec![(o + 80, vec![0xAB; 16])]));
        out.push(p32(o + 96, 0xFFFF_FFFF));
        out.push(Mutn::Patch(vec![(o + 100, vec![0xFF; 8])]));
        out.push(Mutn::Patch(vec![(o + 108, vec![0x01; 8])]));
        let mut starts = vals32(e.start, nsec);
        starts.extend([mini_count as u32, mini_count as u32 + 1, 1000]);
        for v in starts {
            if v != e.start {
                out.push(p32(o + 116, v));
            }
        }
        for v in [0u64, 1, 63, 64, 65, 4095, 4096, 4097, e.size.wrapping_add(1), e.size.wrapping_sub(1), e.size.wrapping_add(64), e.size + 512, e.size + 4096, 0xFFFF_FFFF, 0x1_0000_0000, 1 << 63, u64::MAX, (base.len() as u64) * 2] {
            if v != e.size {
                out.push(Mutn::Patch(vec![(o + 120, v.to_le_bytes().to_vec())]));
            }
        }
    }
    // truncations and extensions
    let mut n = sl / 2;
    while n < base.len() {
        out.push(Mutn::Truncate(n));
        n += sl / 2;
    }
    for t in [0usize, 1, 8, 76, 511, 512, 513, base.len() - 1] {
        if t < base.len() {
            out.push(Mutn::Truncate(t));
        }
    }
    for n in [1usize, 511, 512, 4096] {
        for f in [0u8, 0xFF] {
            out.push(Mutn::Extend(n, f));
        }
    }
    // a DIFAT that lists one sector as a FAT sector over and over
    for n in [1usize, 4, 16, 64] {
        if n * sl > (1 << 17) {
            continue;
        }
        for target in [p.fat_sectors.first().copied().unwrap_or(0), 0, nsec.saturating_sub(1)] {
            out.push(Mutn::Amplify(n, target));
        }
    }
    // extensions that give the file more sectors than its FAT sectors have cells for
    let cap = p.fat_sectors.len() * cells;
    if cap >= nsec as usize {
        for k in [0usize, 1, 2, cells] {
            out.push(Mutn::Extend((cap - nsec as usize + k) * sl, 0));
        }
    }
    out
}

/// Chain-cell corruptions with a small value alphabet (first cells, neighbours, END, FREE):
/// the building blocks of rings, tails running into rings, and cross-linked chains, which
/// need two cells to be wrong at once.
pub fn chain_mutations(base: &[u8]) -> Vec<Mutn> {
    let mut out = Vec::new();
    let p = match spec::parse(base) {
        Ok(p) => p,
        Err(_) => return out,
    };
    let cells = p.sector_len / 4;
    let nsec = p.num_sectors;
    let p32 = |o: usize, v: u32| Mutn::Patch(vec![(o, v.to_le_bytes().to_vec())]);
    let small = |own: u32, n: u32| {
        let mut v = vec![0u32, 1, 2, 3, own.wrapping_add(1), own.wrapping_sub(1), n.wrapping_sub(1), 0xFFFF_FFFE, 0xFFFF_FFFF];
        v.sort();
        v.dedup();
        v.retain(|&x| x != own);
        v
    };
    for i in 0..(nsec as usize + 1).min(p.fat.len()) {
        let o = p.sector_off(p.fat_sectors[i / cells]) + 4 * (i % cells);
        for v in small(p.fat[i], nsec) {
            out.push(p32(o, v));
        }
    }
    let mini_count = (p.dir[0].size / 64) as usize;
    for i in 0..(mini_count + 1).min(p.minifat.len()) {
        let o = p.sector_off(p.minifat_sectors[i / cells]) + 4 * (i % cells);
        for v in small(p.minifat[i], mini_count as u32) {
            out.push(p32(o, v));
        }
    }
    let per = p.sector_len / 128;
    for (i, e) in p.dir.iter().enumerate() {
        if e.obj_type == 0 {
            continue;
        }
        let o = p.sector_off(p.dir_sectors[i / per]) + (i % per) * 128;
        for v in [0u32, 1, 2, 3] {
            if v != e.start {
                out.push(p32(o + 116, v));
            }
        }
    }
    out
}

/// Field-agnostic sweep: every aligned 32-bit word x the value alphabet.
pub fn word_mutations(base: &[u8], data_too: bool) -> Vec<Mutn> {
    let mut out = Vec::new();
    let limit = base.len();
    let p = spec::parse(base).ok();
    for o in (0..limit).step_by(4) {
        if !data_too {
            // skip sectors that hold stream data only
            if let Some(p) = &p {
                let sl = p.sector_len;
                if o >= sl {
                    let s = (o / sl - 1) as u32;
                    let meta = p.fat_sectors.contains(&s) || p.difat_sectors.contains(&s) || p.dir_sectors.contains(&s) || p.minifat_sectors.contains(&s);
                    if !meta {
                        continue;
                    }
                }
            }
        }
        let own = spec::u32at(base, o);
        for v in [0u32, 1, 2, own.wrapping_add(1), own.wrapping_sub(1), own ^ 0x8000_0000, 0x7FFF_FFFF, 0xFFFF_FFFA, 0xFFFF_FFFB, 0xFFFF_FFFC, 0xFFFF_FFFD, 0xFFFF_FFFE, 0xFFFF_FFFF, own.swap_bytes(), 0x0001_0000, 100] {
            if v != own {
                out.push(Mutn::Patch(vec![(o, v.to_le_bytes().to_vec())]));
            }
        }
    }
    out
}

pub fn mutations(base: &[u8], full_words: bool, full16: bool) -> Vec<Mutn> {
    let mut v = field_mutations(base, full16);
    v.extend(word_mutations(base, full_words));
    v
}

// ---------------------------------------------------------------------- //
// the scripts

/// C05: read-only script.  Also evaluates the C16 clause "strict accepts =>
/// permissive accepts with the same view" (class "leniency").
pub fn run_readonly(bytes: &[u8]) -> Vec<(String, String)> {
    let mut problems = Vec::new();
    let mut dumps: Vec<Option<crate::refmodel::Dump>> = Vec::new();
    for strict in [false, true] {
        let r = guarded(|| -> Option<crate::refmodel::Dump> {
            // the strict pass reads through the smallest stream buffer (1024 bytes: streams span several
            // buffer windows), the permissive pass through the default one
            let mut l = match Live::open_buf(bytes.to_vec(), strict, if strict { Some(1024) } else { None }) {
                Ok(l) => l,
                Err(e) => {
                    if e.contains("PANIC") {
                        std::panic::panic_any(e);
                    }
                    return None;
                }
            };
            let entries: Vec<cfb::Entry> = l.comp.walk().take(100_000).collect();
            let _ = l.comp.root_entry();
            let _: Vec<cfb::Entry> = l.comp.read_root_storage().take(100_000).collect();
            for e in &entries {
                let p = e.path().to_path_buf();
                let _ = l.comp.entry(&p);
                let _ = l.comp.exists(&p);
                let _ = l.comp.is_stream(&p);
                let _ = l.comp.is_storage(&p);
                // every call on every path, whatever kind the entry claims to be (a damaged entry's
                // kind as listed and as looked up need not agree)
                if let Ok(it) = l.comp.read_storage(&p) {
                    let _: Vec<cfb::Entry> = it.take(100_000).collect();
                }
                if let Ok(it) = l.comp.walk_storage(&p) {
                    let _: Vec<cfb::Entry> = it.take(100_000).collect();
                }
                if let Ok(mut s) = l.comp.open_stream(&p) {
                    let len = s.len();
                    let mut buf = Vec::new();
                    // read in bounded steps: a stream may claim an enormous length
                    let mut chunk = vec![0u8; 65536];
                    let mut total = 0u64;
                    loop {
                        match s.read(&mut chunk) {
                            Ok(0) => break,
                            Ok(k) => {
                                total += k as u64;
                                if buf.len() < 1 << 20 {
                                    buf.extend_from_slice(&chunk[..k]);
                                }
                                if total > (bytes.len() as u64) * 4 + (1 << 20) {
                                    // every sector belongs to at most one position of a validated chain, so a
                                    // stream cannot hold more bytes than the file: the read loop does not end
                                    std::panic::panic_any(format!("HANG: stream {:?} has returned {} bytes from a {}-byte input without reporting the end of the stream", p, total, bytes.len()));
                                }
                            }
                            Err(_) => break,
                        }
                    }
                    for t in [0u64, len / 2, len] {
                        if s.seek(SeekFrom::Start(t)).is_ok() {
                            let mut b = [0u8; 100];
                            let _ = s.read(&mut b);
                        }
                    }
                    let _ = s.seek(SeekFrom::End(0));
                    let _ = s.seek(SeekFrom::Current(-1));
                    // extreme arguments from every kind of position (a damaged length can be huge)
                    for from_end in [0i64, -3] {
                        if s.seek(SeekFrom::End(from_end)).is_ok() {
                            for sf in [SeekFrom::Current(i64::MAX), SeekFrom::Current(i64::MIN), SeekFrom::Current(1), SeekFrom::End(i64::MIN), SeekFrom::End(i64::MAX), SeekFrom::Start(u64::MAX)] {
                                let _ = s.seek(sf);
                            }
                            let mut b = [0u8; 16];
                            let _ = s.read(&mut b);
                        }
                    }
                    let _ = s.seek(SeekFrom::Start(0));
                    let _ = s.seek(SeekFrom::Current(i64::MAX));
                }
            }
            let _ = l.comp.entry("/nope");
            let _ = l.comp.open_stream("/nope/x");
            ops::dump_real(&mut l.comp).ok()
        });
        match r {
            Ok(d) => dumps.push(d),
            Err(p) => {
                problems.push(("panic".to_string(), format!("read-only script ({}) panicked: {}", if strict { "strict" } else { "permissive" }, p)));
                dumps.push(None);
            }
        }
    }
    // strict accepted?  then permissive must, with the same view
    if let Some(ds) = &dumps[1] {
        match &dumps[0] {
            None => problems.push(("leniency".into(), "strict open accepts and dumps an input that permissive open rejects or cannot dump".into())),
            Some(dp) => {
                if let Some(d) = ds.diff(dp) {
                    problems.push(("leniency".into(), format!("strict and permissive views of the same input differ: {}", d)));
                }
            }
        }
    }
    problems
}

#[derive(Clone, Debug, PartialEq, Eq, Serialize, Deserialize)]
pub enum MOp {
    CreateSmall,
    CreateLarge,
    CreateStorage,
    Rewrite(usize, usize),
    Append(usize, usize),
    SetLen(usize, u64),
    RemoveStream(usize),
    RemoveStorage(usize),
    RemoveAll,
    Setters(usize),
    Flush,
    CreateUnder(usize),
    /// open, seek to the end, relative seeks on both sides of it, then overwrite a few bytes
    SeekAround(usize),
    /// a caller that retries: three attempts to append 600 bytes and flush, errors ignored
    AppendRetry(usize),
    /// three attempts to create and fill a large stream, errors ignored
    CreateRetry,
    /// two handles on the same stream: one shrinks it to 10 bytes, the other (opened before) appends at
    /// what it believes is the end and flushes; then the first extends by 300 bytes and the second
    /// overwrites the start and flushes
    TwoHandles(usize),
    /// a handle with unflushed data whose stream is removed; a new small stream is created and filled
    /// (it may reuse the directory slot); then the stale handle is flushed, written again and dropped
    RemoveHeld(usize),
    /// one handle: read a byte (the window now holds the stream's start), shrink the stream to a length
    /// inside that window but not below the position, read on to the end, then query and move the position
    ShrinkInWindow(usize),
}

/// Mutation alphabet for a file with `ns` streams and `nd` storages (by walk index).
pub fn mutation_alphabet(ns: usize, nd: usize) -> Vec<MOp> {
    let mut v = vec![MOp::CreateSmall, MOp::CreateLarge, MOp::CreateStorage, MOp::RemoveAll, MOp::Flush, MOp::CreateRetry];
    for i in 0..ns.min(6) {
        v.push(MOp::Rewrite(i, 100));
        v.push(MOp::Rewrite(i, 5000));
        v.push(MOp::Append(i, 70));
        v.push(MOp::SetLen(i, 0));
        v.push(MOp::SetLen(i, 100));
        v.push(MOp::SetLen(i, 5000));
        if i < 2 {
            v.push(MOp::SetLen(i, u64::MAX));
            v.push(MOp::TwoHandles(i));
            v.push(MOp::RemoveHeld(i));
            v.push(MOp::ShrinkInWindow(i));
        }
        v.push(MOp::RemoveStream(i));
        v.push(MOp::SeekAround(i));
        v.push(MOp::AppendRetry(i));
    }
    for i in 0..nd.min(4) {
        v.push(MOp::RemoveStorage(i));
        v.push(MOp::Setters(i));
        v.push(MOp::CreateUnder(i));
    }
    v
}

fn do_mop(l: &mut Live, op: &MOp, streams: &[std::path::PathBuf], storages: &[std::path::PathBuf]) {
    let data = |n: usize| ops::pattern(3, n);
    match op {
        MOp::CreateSmall => {
            if let Ok(s) = l.comp.create_stream("/__new_small") {
                let mut s = ops::NoDropOnPanic::new(s);
                let _ = s.write_all(&data(100));
                let _ = s.flush();
            }
        }
        MOp::CreateLarge => {
            if let Ok(s) = l.comp.create_stream("/__new_large") {
                let mut s = ops::NoDropOnPanic::new(s);
                let _ = s.write_all(&data(9000));
                let _ = s.flush();
            }
        }
        MOp::CreateStorage => {
            let _ = l.comp.create_storage("/__new_dir");
        }
        MOp::Rewrite(i, n) => {
            if let Some(p) = streams.get(*i) {
                if let Ok(s) = l.comp.create_stream(p) {
                    let mut s = ops::NoDropOnPanic::new(s);
                    let _ = s.write_all(&data(*n));
                    let _ = s.flush();
                }
            }
        }
        MOp::AppendRetry(i) => {
            if let Some(p) = streams.get(*i) {
                if let Ok(s) = l.comp.open_stream(p) {
                    let mut s = ops::NoDropOnPanic::new(s);
                    for _ in 0..3 {
                        if s.seek(SeekFrom::End(0)).is_ok() {
                            let _ = s.write_all(&data(600));
                        }
                        let _ = s.flush();
                        let n = s.len();
                        let _ = s.set_len(n.saturating_add(600));
                    }
                }
            }
        }
        MOp::CreateRetry => {
            for k in 0..3 {
                if let Ok(s) = l.comp.create_stream(format!("/__retry{}", k)) {
                    let mut s = ops::NoDropOnPanic::new(s);
                    let _ = s.write_all(&data(5000));
                    let _ = s.flush();
                }
            }
        }
        MOp::SeekAround(i) => {
            if let Some(p) = streams.get(*i) {
                if let Ok(s) = l.comp.open_stream(p) {
                    let mut s = ops::NoDropOnPanic::new(s);
                    let _ = s.seek(SeekFrom::End(0));
                    let _ = s.seek(SeekFrom::Current(1));
                    let _ = s.seek(SeekFrom::Current(i64::MAX));
                    let _ = s.seek(SeekFrom::Current(-7));
                    let _ = s.write_all(&data(20));
                    let _ = s.seek(SeekFrom::Start(3));
                    let _ = s.seek(SeekFrom::Current(i64::MAX));
                    let _ = s.write_all(&data(5));
                    let _ = s.flush();
                }
            }
        }
        MOp::Append(i, n) => {
            if let Some(p) = streams.get(*i) {
                if let Ok(s) = l.comp.open_stream(p) {
                    let mut s = ops::NoDropOnPanic::new(s);
                    if s.seek(SeekFrom::End(0)).is_ok() {
                        let _ = s.write_all(&data(*n));
                        let _ = s.flush();
                    }
                }
            }
        }
        MOp::SetLen(i, n) => {
            if let Some(p) = streams.get(*i) {
                if let Ok(s) = l.comp.open_stream(p) {
                    let mut s = ops::NoDropOnPanic::new(s);
                    let _ = s.set_len(*n);
                    let _ = s.flush();
                }
            }
        }
        MOp::RemoveStream(i) => {
            if let Some(p) = streams.get(*i) {
                let _ = l.comp.remove_stream(p);
            }
        }
        MOp::TwoHandles(i) => {
            if let Some(p) = streams.get(*i) {
                if let (Ok(a), Ok(b)) = (l.comp.open_stream(p), l.comp.open_stream(p)) {
                    let mut a = ops::NoDropOnPanic::new(a);
                    let mut b = ops::NoDropOnPanic::new(b);
                    let _ = a.set_len(10);
                    let _ = a.flush();
                    // (a damaged entry may claim a huge length: appending there would legitimately create a
                    // huge file, which is not what this script is after)
                    if b.len() <= (1 << 20) && b.seek(SeekFrom::End(0)).is_ok() {
                        let _ = b.write_all(&data(20));
                    }
                    let _ = b.flush();
                    if a.seek(SeekFrom::End(0)).is_ok() {
                        let _ = a.write_all(&data(300));
                    }
                    let _ = a.flush();
                    if b.seek(SeekFrom::Start(0)).is_ok() {
                        let _ = b.write_all(&data(10));
                    }
                    let _ = b.flush();
                    let mut sink = Vec::new();
                    let _ = a.seek(SeekFrom::Start(0));
                    let _ = a.read_to_end(&mut sink);
                }
            }
        }
        MOp::ShrinkInWindow(i) => {
            if let Some(p) = streams.get(*i) {
                if let Ok(h) = l.comp.open_stream(p) {
                    let mut h = ops::NoDropOnPanic::new(h);
                    let mut one = [0u8; 1];
                    let _ = h.read(&mut one);
                    let n = if h.len() > 20 && h.len() < (1 << 20) { h.len() / 2 } else { 5 };
                    let _ = h.set_len(n);
                    let mut sink = Vec::new();
                    let _ = (&mut *h).take(1 << 20).read_to_end(&mut sink);
                    let _ = h.stream_position();
                    let _ = h.seek(SeekFrom::Current(0));
                    let _ = h.seek(SeekFrom::Current(-1));
                    let _ = h.write_all(&data(3));
                    let _ = h.flush();
                }
            }
        }
        MOp::RemoveHeld(i) => {
            if let Some(p) = streams.get(*i) {
                if let Ok(h) = l.comp.open_stream(p) {
                    let mut h = ops::NoDropOnPanic::new(h);
                    let _ = h.write_all(&data(10));
                    let _ = l.comp.remove_stream(p);
                    if let Ok(n) = l.comp.create_stream("/__reuse") {
                        let mut n = ops::NoDropOnPanic::new(n);
                        let _ = n.write_all(&data(50));
                        let _ = n.flush();
                    }
                    let _ = h.flush();
                    let _ = h.write_all(&data(5000));
                    let _ = h.flush();
                    let _ = h.set_len(3);
                    let mut sink = Vec::new();
                    let _ = h.seek(SeekFrom::Start(0));
                    let _ = h.read_to_end(&mut sink);
                }
            }
        }
        MOp::RemoveStorage(i) => {
            if let Some(p) = storages.get(*i) {
                let _ = l.comp.remove_storage(p);
            }
        }
        MOp::RemoveAll => {
            let _ = l.comp.remove_storage_all("/");
        }
        MOp::Setters(i) => {
            if let Some(p) = storages.get(*i) {
                let _ = l.comp.set_state_bits(p, 7);
                let _ = l.comp.set_storage_clsid(p, uuid::Uuid::from_bytes([5; 16]));
                let _ = l.comp.touch(p);
            }
        }
        MOp::Flush => {
            let _ = l.comp.flush();
        }
        MOp::CreateUnder(i) => {
            if let Some(p) = storages.get(*i) {
                if let Ok(s) = l.comp.create_stream(p.join("__child")) {
                    let mut s = ops::NoDropOnPanic::new(s);
                    let _ = s.write_all(&data(65));
                    let _ = s.flush();
                }
            }
        }
    }
}

/// C11: every mutation script up to `depth` on a permissively opened input.
/// Returns (problems with the failing script, scripts run).
pub fn run_mutating(bytes: &[u8], depth: usize) -> (Vec<(String, String, Vec<MOp>)>, u64) {
    let mut problems = Vec::new();
    let mut scripts = 0u64;
    // what is in the file (through the API)?
    let listing = guarded(|| -> Option<(Vec<std::path::PathBuf>, Vec<std::path::PathBuf>)> {
        let l = Live::open(bytes.to_vec(), false).ok()?;
        let mut streams = Vec::new();
        let mut storages = Vec::new();
        for e in l.comp.walk().take(10_000) {
            if e.is_stream() {
                streams.push(e.path().to_path_buf());
            } else {
                storages.push(e.path().to_path_buf());
            }
        }
        Some((streams, storages))
    });
    let (streams, storages) = match listing {
        Ok(Some(x)) => x,
        Ok(None) => return (problems, 0), // not accepted: nothing to do
        Err(_) => return (problems, 0),   // panics while reading are C05's business
    };
    let alpha = mutation_alphabet(streams.len(), storages.len());
    let mut stack: Vec<Vec<MOp>> = alpha.iter().map(|a| vec![a.clone()]).collect();
    while let Some(script) = stack.pop() {
        scripts += 1;
        let r = guarded(|| {
            if let Ok(mut l) = Live::open(bytes.to_vec(), false) {
                for op in &script {
                    do_mop(&mut l, op, &streams, &storages);
                }
                // the object must still answer read-only calls
                let _: Vec<cfb::Entry> = l.comp.walk().take(10_000).collect();
            }
        });
        if let Err(p) = r {
            problems.push(("panic".to_string(), format!("mutation script panicked: {}", p), script.clone()));
            continue;
        }
        if script.len() < depth {
            for a in &alpha {
                let mut s2 = script.clone();
                s2.push(a.clone());
                stack.push(s2);
            }
        }
    }
    (problems, scripts)
}

// ---------------------------------------------------------------------- //
// worker side

#[derive(Clone, Copy, Debug, PartialEq, Eq)]
pub enum Mode {
    ReadOnly,
    Mutating(usize),
}

fn mode_str(m: Mode) -> String {
    match m {
        Mode::ReadOnly => "ro".into(),
        Mode::Mutating(d) => format!("mut{}", d),
    }
}
fn parse_mode(s: &str) -> Mode {
    if s == "ro" {
        Mode::ReadOnly
    } else {
        Mode::Mutating(s.trim_start_matches("mut").parse().unwrap_or(1))
    }
}

/// Case `idx` of a base: singles first, then (if pairs) all pairs i<j of the
/// field-aware list.
pub struct CaseSpace {
    pub base: Vec<u8>,
    pub singles: Vec<Mutn>,
    pub pair_list: Vec<Mutn>,
}

impl CaseSpace {
    pub fn build(base_id: &str, thorough: bool, pairs: bool) -> Option<CaseSpace> {
        if let Some(inner) = base_id.strip_prefix("chains:") {
            // all pairs of chain-cell corruptions (FAT cells, MiniFAT cells, start sectors) of `inner`
            let (_, base, _) = bases(thorough).into_iter().find(|b| b.0 == inner)?;
            let pair_list = chain_mutations(&base);
            return Some(CaseSpace { base, singles: Vec::new(), pair_list });
        }
        if let Some(inner) = base_id.strip_prefix("fields:") {
            // field-aware single corruptions only (no field-agnostic word sweep)
            let (_, base, _) = bases(thorough).into_iter().find(|b| b.0 == inner)?;
            let singles = field_mutations(&base, false);
            return Some(CaseSpace { base, singles, pair_list: Vec::new() });
        }
        let (_, base, full) = bases(thorough).into_iter().find(|b| b.0 == base_id)?;
        let singles = mutations(&base, full, base_id == "fresh-v3" || base_id == "mixed-v4");
        let pair_list = if pairs {
            // pairs over 32-bit field patches only (no 16-bit sweeps, no truncations)
            field_mutations(&base, false).into_iter().filter(|m| matches!(m, Mutn::Patch(p) if p.len() == 1 && p[0].1.len() >= 4 && p[0].0 >= 40)).collect()
        } else {
            Vec::new()
        };
        Some(CaseSpace { base, singles, pair_list })
    }
    pub fn len(&self) -> u64 {
        let n = self.pair_list.len() as u64;
        self.singles.len() as u64 + n * n.saturating_sub(1) / 2
    }
    pub fn case(&self, idx: u64) -> Mutn {
        let s = self.singles.len() as u64;
        if idx < s {
            return self.singles[idx as usize].clone();
        }
        // pair index -> (i, j), i < j
        let mut k = idx - s;
        let n = self.pair_list.len() as u64;
        let mut i = 0u64;
        while k >= n - 1 - i {
            k -= n - 1 - i;
            i += 1;
        }
        let j = i + 1 + k;
        match (&self.pair_list[i as usize], &self.pair_list[j as usize]) {
            (Mutn::Patch(a), Mutn::Patch(b)) => {
                let mut p = a.clone();
                p.extend(b.iter().cloned());
                Mutn::Patch(p)
            }
            _ => unreachable!(),
        }
    }
}

const MEM_BASE: usize = 4 << 20;

fn run_one(bytes: &[u8], mode: Mode) -> (Vec<(String, String, Vec<MOp>)>, u64) {
    let before = peak_reset();
    let (mut problems, scripts) = match mode {
        Mode::ReadOnly => (run_readonly(bytes).into_iter().map(|(c, m)| (c, m, vec![])).collect::<Vec<_>>(), 1),
        Mode::Mutating(d) => run_mutating(bytes, d),
    };
    let peak = peak_get().saturating_sub(before);
    let allowance = MEM_BASE + 16 * bytes.len() + if matches!(mode, Mode::Mutating(_)) { 64 << 20 } else { 0 };
    if peak > allowance {
        problems.push(("memory".into(), format!("peak allocation {} bytes for a {}-byte input (allowance {})", peak, bytes.len(), allowance), vec![]));
    }
    (problems, scripts)
}

/// `cfbmc worker <mode> <base_id> <thorough> <pairs> <lo> <hi>`
pub fn worker_main(args: &[String]) -> i32 {
    let mode = parse_mode(&args[0]);
    let base_id = &args[1];
    let thorough = args[2] == "1";
    let pairs = args[3] == "1";
    let lo: u64 = args[4].parse().unwrap();
    let hi: u64 = args[5].parse().unwrap();
    let space = match CaseSpace::build(base_id, thorough, pairs) {
        Some(s) => s,
        None => return 2,
    };
    COUNTING.store(true, Ordering::SeqCst);
    let out = std::io::stdout();
    let mut out = out.lock();
    let mut scripts_total = 0u64;
    for idx in lo..hi.min(space.len()) {
        let _ = writeln!(out, "S {}", idx);
        let _ = out.flush();
        let m = space.case(idx);
        let bytes = apply(&space.base, &m);
        let (problems, scripts) = run_one(&bytes, mode);
        scripts_total += scripts;
        for (class, msg, script) in problems {
            let _ = writeln!(out, "P {} {}", idx, json!({"class": class, "msg": msg, "script": script}));
        }
    }
    let _ = writeln!(out, "DONE {}", scripts_total);
    let _ = out.flush();
    0
}

// ---------------------------------------------------------------------- //
// master side

pub struct SweepStats {
    pub cases: u64,
    pub scripts: u64,
    pub problems: u64,
    pub restarts: u64,
}

fn exe() -> std::path::PathBuf {
    std::env::current_exe().expect("current_exe")
}

struct WorkerRun {
    /// problems: (idx, class, msg, script)
    problems: Vec<(u64, String, String, serde_json::Value)>,
    scripts: u64,
    /// Some(idx) if the worker died / stalled while running idx
    died_at: Option<(u64, String)>,
}

fn run_worker(mode: Mode, base_id: &str, thorough: bool, pairs: bool, lo: u64, hi: u64, stall: std::time::Duration) -> WorkerRun {
    use std::process::{Command, Stdio};
    let mut child = Command::new(exe())
        .args(["worker", &mode_str(mode), base_id, if thorough { "1" } else { "0" }, if pairs { "1" } else { "0" }, &lo.to_string(), &hi.to_string()])
        .stdout(Stdio::piped())
        .stderr(Stdio::null())
        .spawn()
        .expect("spawn worker");
    let stdout = child.stdout.take().unwrap();
    let (tx, rx) = std::sync::mpsc::channel::<String>();
    let reader = std::thread::spawn(move || {
        let br = BufReader::new(stdout);
        for line in br.lines().map_while(Result::ok) {
            if tx.send(line).is_err() {
                break;
            }
        }
    });
    let mut run = WorkerRun { problems: Vec::new(), scripts: 0, died_at: None };
    let mut current: Option<u64> = None;
    let mut done = false;
    loop {
        match rx.recv_timeout(stall) {
            Ok(line) => {
                if let Some(rest) = line.strip_prefix("S ") {
                    current = rest.trim().parse().ok();
                } else if let Some(rest) = line.strip_prefix("P ") {
                    let mut it = rest.splitn(2, ' ');
                    let idx: u64 = it.next().and_then(|x| x.parse().ok()).unwrap_or(0);
                    if let Ok(v) = serde_json::from_str::<serde_json::Value>(it.next().unwrap_or("{}")) {
                        run.problems.push((idx, v["class"].as_str().unwrap_or("").to_string(), v["msg"].as_str().unwrap_or("").to_string(), v["script"].clone()));
                    }
                } else if let Some(rest) = line.strip_prefix("DONE ") {
                    run.scripts = rest.trim().parse().unwrap_or(0);
                    done = true;
                }
            }
            Err(std::sync::mpsc::RecvTimeoutError::Timeout) => {
                let _ = child.kill();
                run.died_at = current.map(|c| (c, format!("no progress for {:?}", stall)));
                break;
            }
            Err(std::sync::mpsc::RecvTimeoutError::Disconnected) => break,
        }
    }
    let status = child.wait();
    let _ = reader.join();
    if !done && run.died_at.is_none() {
        run.died_at = current.map(|c| (c, format!("worker process ended abnormally: {:?}", status)));
    }
    run
}

/// Runs the sweep of one base file over `workers` processes.
pub fn sweep_base(ctx: &Ctx, mode: Mode, base_id: &str, thorough: bool, pairs: bool, workers: usize) -> SweepStats {
    let space = CaseSpace::build(base_id, thorough, pairs).expect("base");
    let total = space.len();
    let mut stats = SweepStats { cases: total, scripts: 0, problems: 0, restarts: 0 };
    let chunk = ((total + workers as u64 - 1) / workers as u64).max(1);
    let ranges: Vec<(u64, u64)> = (0..workers as u64).map(|w| (w * chunk, ((w + 1) * chunk).min(total))).filter(|r| r.0 < r.1).collect();
    let results: Vec<(u64, u64, Vec<(u64, String, String, serde_json::Value)>)> = std::thread::scope(|sc| {
        let handles: Vec<_> = ranges
            .iter()
            .map(|&(lo, hi)| {
                sc.spawn(move || {
                    let mut lo = lo;
                    let mut scripts = 0u64;
                    let mut restarts = 0u64;
                    let mut problems = Vec::new();
                    while lo < hi {
                        let run = run_worker(mode, base_id, thorough, pairs, lo, hi, std::time::Duration::from_secs(if matches!(mode, Mode::Mutating(_)) { 30 } else { 10 }));
                        scripts += run.scripts;
                        problems.extend(run.problems);
                        match run.died_at {
                            None => break,
                            Some((idx, why)) => {
                                restarts += 1;
                                // confirm alone with a generous limit
                                let alone = run_worker(mode, base_id, thorough, pairs, idx, idx + 1, std::time::Duration::from_secs(60));
                                problems.extend(alone.problems);
                                if let Some((_, why2)) = alone.died_at {
                                    let class = if why2.contains("no progress") { "hang" } else { "abort" };
                                    problems.push((idx, class.to_string(), format!("case does not complete in isolation: {} (first seen: {})", why2, why), json!([])));
                                }
                                lo = idx + 1;
                            }
                        }
                    }
                    (scripts, restarts, problems)
                })
            })
            .collect();
        handles.into_iter().map(|h| h.join().unwrap()).collect()
    });
    for (scripts, restarts, problems) in results {
        stats.scripts += scripts;
        stats.restarts += restarts;
        for (idx, class, msg, script) in problems {
            stats.problems += 1;
            let m = space.case(idx);
            let core = msg.splitn(2, ": ").nth(1).unwrap_or(&msg);
            let sig = format!("{}:{}", class, sig_norm(core).chars().take(110).collect::<String>());
            ctx.report(Violation {
                class: class.clone(),
                sig,
                msg: format!("{} [base {} case #{} {:?}{}]", msg, base_id, idx, m, if script.as_array().map(|a| !a.is_empty()).unwrap_or(false) { format!(" script {}", script) } else { String::new() }),
                replay: json!({"kind": "corrupt", "mode": mode_str(mode), "base": base_id, "thorough": thorough, "pairs": pairs, "index": idx, "mutation": m, "script": script}),
            });
        }
    }
    stats
}

/// Replays one corrupt case in an isolated worker.
pub fn replay_case(mode: &str, base: &str, thorough: bool, pairs: bool, idx: u64) -> i32 {
    let run = run_worker(parse_mode(mode), base, thorough, pairs, idx, idx + 1, std::time::Duration::from_secs(60));
    let mut bad = false;
    for (i, class, msg, script) in &run.problems {
        println!("VIOLATION-REPLAYED case #{} class={} {} {}", i, class, msg, script);
        bad = true;
    }
    if let Some((i, why)) = &run.died_at {
        println!("VIOLATION-REPLAYED case #{} does not complete: {}", i, why);
        bad = true;
    }
    if bad {
        1
    } else {
        println!("no violation on replay");
        0
    }
}

pub fn kinds_in(bytes: &[u8]) -> (usize, usize) {
    match spec::parse(bytes).ok().and_then(|p| spec::logical(&p, bytes).ok()) {
        Some(t) => {
            let all = t.all_paths();
            (all.iter().filter(|x| x.1 == Kind::Stream).count(), all.iter().filter(|x| x.1 != Kind::Stream).count())
        }
        None => (0, 0),
    }
}
