//! S2: independent MS-CFB reader and structural validator, written from
//! [MS-CFB] with its own constants.  Imports nothing from `cfb`.
use crate::names;
use crate::refmodel::{Kind, Node};
use std::collections::{BTreeMap, BTreeSet};

pub const MAXREGSECT: u32 = 0xFFFF_FFFA;
pub const DIFSECT: u32 = 0xFFFF_FFFC;
pub const FATSECT: u32 = 0xFFFF_FFFD;
pub const ENDOFCHAIN: u32 = 0xFFFF_FFFE;
pub const FREESECT: u32 = 0xFFFF_FFFF;
pub const NOSTREAM: u32 = 0xFFFF_FFFF;
pub const MAGIC: [u8; 8] = [0xD0, 0xCF, 0x11, 0xE0, 0xA1, 0xB1, 0x1A, 0xE1];
pub const CUTOFF: u64 = 4096;
pub const MINI: u64 = 64;

pub fn u16at(b: &[u8], o: usize) -> u16 {
    u16::from_le_bytes([b[o], b[o + 1]])
}
pub fn u32at(b: &[u8], o: usize) -> u32 {
    u32::from_le_bytes([b[o], b[o + 1], b[o + 2], b[o + 3]])
}
pub fn u64at(b: &[u8], o: usize) -> u64 {
    let mut x = [0u8; 8];
    x.copy_from_slice(&b[o..o + 8]);
    u64::from_le_bytes(x)
}

#[derive(Clone, Debug)]
pub struct RawEntry {
    pub raw: [u8; 128],
    pub name_units: Vec<u16>, // all 32
    pub name_len: u16,
    pub obj_type: u8,
    pub color: u8,
    pub left: u32,
    pub right: u32,
    pub child: u32,
    pub clsid_disk: [u8; 16],
    pub state: u32,
    pub ctime: u64,
    pub mtime: u64,
    pub start: u32,
    pub size: u64,
}

impl RawEntry {
    pub fn parse(b: &[u8]) -> RawEntry {
        let mut raw = [0u8; 128];
        raw.copy_from_slice(&b[..128]);
        let mut clsid_disk = [0u8; 16];
        clsid_disk.copy_from_slice(&b[80..96]);
        RawEntry {
            raw,
            name_units: (0..32).map(|i| u16at(b, 2 * i)).collect(),
            name_len: u16at(b, 64),
            obj_type: b[66],
            color: b[67],
            left: u32at(b, 68),
            right: u32at(b, 72),
            child: u32at(b, 76),
            clsid_disk,
            state: u32at(b, 96),
            ctime: u64at(b, 100),
            mtime: u64at(b, 108),
            start: u32at(b, 116),
            size: u64at(b, 120),
        }
    }
    /// Name as stored: (name_len/2 - 1) units.
    pub fn name(&self) -> Result<String, String> {
        if self.name_len < 2 || self.name_len > 64 || self.name_len % 2 != 0 {
            return Err(format!("bad name length field {}", self.name_len));
        }
        let n = (self.name_len / 2 - 1) as usize;
        String::from_utf16(&self.name_units[..n]).map_err(|_| "name is not UTF-16".to_string())
    }
    /// CLSID in RFC-4122 byte order (what Uuid::as_bytes gives).
    pub fn clsid_be(&self) -> [u8; 16] {
        let d = &self.clsid_disk;
        [d[3], d[2], d[1], d[0], d[5], d[4], d[7], d[6], d[8], d[9], d[10], d[11], d[12], d[13], d[14], d[15]]
    }
}

#[derive(Clone, Debug)]
pub struct Parsed {
    pub version: u16,
    pub sector_len: usize,
    pub file_len: usize,
    pub num_sectors: u32,
    pub hdr_num_dir: u32,
    pub hdr_num_fat: u32,
    pub hdr_first_dir: u32,
    pub hdr_first_minifat: u32,
    pub hdr_num_minifat: u32,
    pub hdr_first_difat: u32,
    pub hdr_num_difat: u32,
    /// all DIFAT cells in order (109 header cells + cells of each DIFAT sector)
    pub difat_cells: Vec<u32>,
    pub difat_sectors: Vec<u32>,
    /// FAT sector ids = the non-FREE prefix of difat_cells
    pub fat_sectors: Vec<u32>,
    pub fat: Vec<u32>,
    pub dir_sectors: Vec<u32>,
    pub dir: Vec<RawEntry>,
    pub minifat_sectors: Vec<u32>,
    pub minifat: Vec<u32>,
    pub ministream_sectors: Vec<u32>,
}

impl Parsed {
    pub fn sector_off(&self, s: u32) -> usize {
        (s as usize + 1) * self.sector_len
    }
}

fn follow(fat: &[u32], start: u32, what: &str, limit: usize) -> Result<Vec<u32>, String> {
    let mut out = Vec::new();
    let mut seen = BTreeSet::new();
    let mut cur = start;
    while cur != ENDOFCHAIN {
        if cur > MAXREGSECT || cur as usize >= fat.len() {
            return Err(format!("{} chain reaches invalid sector {:#x}", what, cur));
        }
        if !seen.insert(cur) {
            return Err(format!("{} chain loops at sector {}", what, cur));
        }
        if out.len() > limit {
            return Err(format!("{} chain longer than the file", what));
        }
        out.push(cur);
        cur = fat[cur as usize];
    }
    Ok(out)
}

/// Structural parse.  Errors here mean the image is not even navigable.
pub fn parse(b: &[u8]) -> Result<Parsed, String> {
    if b.len() < 512 {
        return Err("shorter than a header".into());
    }
    if b[0..8] != MAGIC {
        return Err("bad signature".into());
    }
    let version = u16at(b, 26);
    let shift = u16at(b, 30);
    let sector_len = match (version, shift) {
        (3, 9) => 512usize,
        (4, 12) => 4096usize,
        _ => return Err(format!("version {} / sector shift {}", version, shift)),
    };
    if b.len() < 2 * sector_len {
        return Err("no room for a single sector".into());
    }
    let num_sectors = (b.len() / sector_len - 1) as u32;
    let mut p = Parsed {
        version,
        sector_len,
        file_len: b.len(),
        num_sectors,
        hdr_num_dir: u32at(b, 40),
        hdr_num_fat: u32at(b, 44),
        hdr_first_dir: u32at(b, 48),
        hdr_first_minifat: u32at(b, 60),
        hdr_num_minifat: u32at(b, 64),
        hdr_first_difat: u32at(b, 68),
        hdr_num_difat: u32at(b, 72),
        difat_cells: Vec::new(),
        difat_sectors: Vec::new(),
        fat_sectors: Vec::new(),
        fat: Vec::new(),
        dir_sectors: Vec::new(),
        dir: Vec::new(),
        minifat_sectors: Vec::new(),
        minifat: Vec::new(),
        ministream_sectors: Vec::new(),
    };
    let in_range = |s: u32| s <= MAXREGSECT && s < num_sectors;
    for i in 0..109 {
        p.difat_cells.push(u32at(b, 76 + 4 * i));
    }
    let mut cur = p.hdr_first_difat;
    let mut seen = BTreeSet::new();
    while cur != ENDOFCHAIN {
        if !in_range(cur) {
            return Err(format!("DIFAT chain reaches invalid sector {:#x}", cur));
        }
        if !seen.insert(cur) {
            return Err("DIFAT chain loops".into());
        }
        p.difat_sectors.push(cur);
        let off = p.sector_off(cur);
        let cells = sector_len / 4 - 1;
        for i in 0..cells {
            p.difat_cells.push(u32at(b, off + 4 * i));
        }
        cur = u32at(b, off + 4 * cells);
    }
    for &c in &p.difat_cells {
        if c == FREESECT {
            break;
        }
        if !in_range(c) {
            return Err(format!("DIFAT names invalid FAT sector {:#x}", c));
        }
        p.fat_sectors.push(c);
    }
    for &fs in &p.fat_sectors {
        let off = p.sector_off(fs);
        for i in 0..sector_len / 4 {
            p.fat.push(u32at(b, off + 4 * i));
        }
    }
    let limit = num_sectors as usize + 1;
    p.dir_sectors = follow(&p.fat, p.hdr_first_dir, "directory", limit)?;
    if p.dir_sectors.is_empty() {
        return Err("no directory sector".into());
    }
    for &ds in &p.dir_sectors {
        if !in_range(ds) {
            return Err("directory sector beyond the file".into());
        }
        let off = p.sector_off(ds);
        for i in 0..sector_len / 128 {
            p.dir.push(RawEntry::parse(&b[off + 128 * i..off + 128 * i + 128]));
        }
    }
    p.minifat_sectors = follow(&p.fat, p.hdr_first_minifat, "MiniFAT", limit)?;
    for &ms in &p.minifat_sectors {
        if !in_range(ms) {
            return Err("MiniFAT sector beyond the file".into());
        }
        let off = p.sector_off(ms);
        for i in 0..sector_len / 4 {
            p.minifat.push(u32at(b, off + 4 * i));
        }
    }
    let root = &p.dir[0];
    if root.size > 0 || (root.start != ENDOFCHAIN && root.start != FREESECT && root.start <= MAXREGSECT && root.obj_type == 5 && root.start != 0) {
        // the root entry owns the mini stream container
    }
    if root.start != ENDOFCHAIN {
        p.ministream_sectors = follow(&p.fat, root.start, "mini stream", limit)?;
        for &s in &p.ministream_sectors {
            if !in_range(s) {
                return Err("mini stream sector beyond the file".into());
            }
        }
    }
    Ok(p)
}

fn regular_bytes(p: &Parsed, b: &[u8], start: u32, size: u64) -> Result<Vec<u8>, String> {
    let chain = follow(&p.fat, start, "stream", p.num_sectors as usize + 1)?;
    let need = (size as usize + p.sector_len - 1) / p.sector_len;
    if chain.len() < need {
        return Err(format!("stream chain has {} sectors, size {} needs {}", chain.len(), size, need));
    }
    let mut out = Vec::with_capacity(size as usize);
    for &s in &chain {
        if s >= p.num_sectors {
            return Err("stream sector beyond the file".into());
        }
        let off = p.sector_off(s);
        out.extend_from_slice(&b[off..off + p.sector_len]);
        if out.len() as u64 >= size {
            break;
        }
    }
    out.truncate(size as usize);
    Ok(out)
}

fn follow_mini(p: &Parsed, start: u32) -> Result<Vec<u32>, String> {
    let mut out = Vec::new();
    let mut seen = BTreeSet::new();
    let mut cur = start;
    while cur != ENDOFCHAIN {
        if cur > MAXREGSECT || cur as usize >= p.minifat.len() {
            return Err(format!("mini chain reaches invalid mini sector {:#x}", cur));
        }
        if !seen.insert(cur) {
            return Err("mini chain loops".into());
        }
        out.push(cur);
        cur = p.minifat[cur as usize];
    }
    Ok(out)
}

fn mini_bytes(p: &Parsed, b: &[u8], start: u32, size: u64) -> Result<Vec<u8>, String> {
    let chain = follow_mini(p, start)?;
    let need = ((size + MINI - 1) / MINI) as usize;
    if chain.len() < need {
        return Err(format!("mini chain has {} mini sectors, size {} needs {}", chain.len(), size, need));
    }
    let per = p.sector_len / 64;
    let mut out = Vec::with_capacity(size as usize);
    for &m in &chain {
        let si = m as usize / per;
        if si >= p.ministream_sectors.len() {
            return Err(format!("mini sector {} beyond the mini stream container", m));
        }
        let off = p.sector_off(p.ministream_sectors[si]) + (m as usize % per) * 64;
        out.extend_from_slice(&b[off..off + 64]);
        if out.len() as u64 >= size {
            break;
        }
    }
    out.truncate(size as usize);
    Ok(out)
}

/// Collects the sibling tree rooted at `id` in-order; guards against loops
/// and out-of-range ids.
fn inorder(p: &Parsed, id: u32, out: &mut Vec<u32>, seen: &mut BTreeSet<u32>) -> Result<(), String> {
    // iterative to survive degenerate (list-shaped) trees
    let mut stack: Vec<u32> = Vec::new();
    let mut cur = id;
    loop {
        while cur != NOSTREAM {
            if cur as usize >= p.dir.len() {
                return Err(format!("directory link to entry {} beyond the table", cur));
            }
            if !seen.insert(cur) {
                return Err(format!("directory entry {} reachable twice", cur));
            }
            stack.push(cur);
            cur = p.dir[cur as usize].left;
        }
        match stack.pop() {
            None => return Ok(()),
            Some(n) => {
                out.push(n);
                cur = p.dir[n as usize].right;
            }
        }
    }
}

/// Logical content encoded in the image, as a reference-model tree.
pub fn logical(p: &Parsed, b: &[u8]) -> Result<Node, String> {
    let mut seen = BTreeSet::new();
    seen.insert(0u32);
    build_node(p, b, 0, &mut seen, 0)
}

fn build_node(p: &Parsed, b: &[u8], id: u32, seen: &mut BTreeSet<u32>, depth: usize) -> Result<Node, String> {
    if depth > 4096 {
        return Err("storage nesting too deep".into());
    }
    let e = &p.dir[id as usize];
    let kind = match e.obj_type {
        5 if id == 0 => Kind::Root,
        1 if id != 0 => Kind::Storage,
        2 if id != 0 => Kind::Stream,
        t => return Err(format!("entry {} has object type {}", id, t)),
    };
    let mut node = Node {
        name: if kind == Kind::Root { "Root Entry".to_string() } else { e.name()? },
        kind,
        clsid: if kind == Kind::Stream { [0; 16] } else { e.clsid_be() },
        state_bits: e.state,
        created: if kind == Kind::Stream { 0 } else { e.ctime },
        modified: if kind == Kind::Stream { 0 } else { e.mtime },
        data: Vec::new(),
        children: Vec::new(),
    };
    if kind == Kind::Stream {
        let size = if p.version == 3 { e.size & 0xFFFF_FFFF } else { e.size };
        if size > b.len() as u64 {
            return Err(format!("stream {} claims {} bytes, file has {}", id, size, b.len()));
        }
        node.data = if size == 0 {
            Vec::new()
        } else if size < CUTOFF {
            mini_bytes(p, b, e.start, size)?
        } else {
            regular_bytes(p, b, e.start, size)?
        };
    } else {
        let mut kids = Vec::new();
        inorder(p, e.child, &mut kids, seen)?;
        for k in kids {
            node.children.push(build_node(p, b, k, seen, depth + 1)?);
        }
    }
    Ok(node)
}

/// The clauses of C03.  Returns every violated clause (empty = well formed).
pub fn check(p: &Parsed, b: &[u8]) -> Vec<String> {
    let mut v: Vec<String> = Vec::new();
    let sl = p.sector_len;
    // --- file length, header constants
    if b.len() % sl != 0 {
        v.push(format!("file length {} is not a whole number of {}-byte sectors", b.len(), sl));
    }
    if u16at(b, 28) != 0xFFFE {
        v.push("byte order mark".into());
    }
    if u16at(b, 32) != 6 {
        v.push("mini sector shift".into());
    }
    if b[8..24].iter().any(|&x| x != 0) {
        v.push("header CLSID not zero".into());
    }
    if b[34..40].iter().any(|&x| x != 0) {
        v.push("header reserved bytes not zero".into());
    }
    if u32at(b, 56) != 4096 {
        v.push("mini stream cutoff".into());
    }
    if p.version == 4 && b[512..4096].iter().any(|&x| x != 0) {
        v.push("v4 header padding not zero".into());
    }
    // --- header counts
    if p.version == 3 && p.hdr_num_dir != 0 {
        v.push(format!("v3 header directory sector count is {}", p.hdr_num_dir));
    }
    if p.version == 4 && p.hdr_num_dir as usize != p.dir_sectors.len() {
        v.push(format!("header says {} directory sectors, chain has {}", p.hdr_num_dir, p.dir_sectors.len()));
    }
    if p.hdr_num_fat as usize != p.fat_sectors.len() {
        v.push(format!("header says {} FAT sectors, DIFAT lists {}", p.hdr_num_fat, p.fat_sectors.len()));
    }
    if p.hdr_num_difat as usize != p.difat_sectors.len() {
        v.push(format!("header says {} DIFAT sectors, chain has {}", p.hdr_num_difat, p.difat_sectors.len()));
    }
    if p.hdr_num_minifat as usize != p.minifat_sectors.len() {
        v.push(format!("header says {} MiniFAT sectors, chain has {}", p.hdr_num_minifat, p.minifat_sectors.len()));
    }
    // --- DIFAT: used cells form a prefix, the tail is FREESECT
    let used = p.fat_sectors.len();
    for (i, &c) in p.difat_cells.iter().enumerate().skip(used) {
        if c != FREESECT {
            v.push(format!("DIFAT cell {} after the last FAT sector is {:#x}, not FREESECT", i, c));
            break;
        }
    }
    {
        let mut s = BTreeSet::new();
        for &f in &p.fat_sectors {
            if !s.insert(f) {
                v.push(format!("FAT sector {} listed twice in the DIFAT", f));
            }
        }
    }
    // a DIFAT sector that holds no entry at all is wasteful but legal; a
    // missing one is caught by the chain walk in parse().
    // --- FAT covers the file; tail beyond the file is FREESECT
    if (p.fat.len() as u64) < p.num_sectors as u64 {
        v.push(format!("FAT has {} cells for {} sectors", p.fat.len(), p.num_sectors));
    }
    for (i, &c) in p.fat.iter().enumerate().skip(p.num_sectors as usize) {
        if c != FREESECT {
            v.push(format!("FAT cell {} beyond the end of the file is {:#x}", i, c));
            break;
        }
    }
    // --- ownership of sectors
    let n = (p.num_sectors as usize).min(p.fat.len());
    let mut owner: Vec<Option<String>> = vec![None; n];
    let mut claim = |s: u32, who: &str, v: &mut Vec<String>| {
        if (s as usize) < n {
            if let Some(prev) = &owner[s as usize] {
                v.push(format!("sector {} belongs to both {} and {}", s, prev, who));
            } else {
                owner[s as usize] = Some(who.to_string());
            }
        } else {
            v.push(format!("{} uses sector {} beyond the FAT/file", who, s));
        }
    };
    for &s in &p.fat_sectors {
        claim(s, "FAT", &mut v);
        if (s as usize) < p.fat.len() && p.fat[s as usize] != FATSECT {
            v.push(format!("FAT sector {} is marked {:#x}, not FATSECT", s, p.fat[s as usize]));
        }
    }
    for &s in &p.difat_sectors {
        claim(s, "DIFAT", &mut v);
        if (s as usize) < p.fat.len() && p.fat[s as usize] != DIFSECT {
            v.push(format!("DIFAT sector {} is marked {:#x}, not DIFSECT", s, p.fat[s as usize]));
        }
    }
    for &s in &p.dir_sectors {
        claim(s, "directory", &mut v);
    }
    for &s in &p.minifat_sectors {
        claim(s, "MiniFAT", &mut v);
    }
    for &s in &p.ministream_sectors {
        claim(s, "mini stream", &mut v);
    }
    // --- directory entries
    let mut reachable: BTreeSet<u32> = BTreeSet::new();
    reachable.insert(0);
    let root = &p.dir[0];
    if root.obj_type != 5 {
        v.push(format!("entry 0 has object type {}, not root", root.obj_type));
    }
    match root.name() {
        Ok(nm) if nm == "Root Entry" => {}
        other => v.push(format!("root entry name is {:?}", other)),
    }
    if root.left != NOSTREAM || root.right != NOSTREAM {
        v.push("root entry has siblings".into());
    }
    // walk storages
    let mut mini_owner: BTreeMap<u32, u32> = BTreeMap::new();
    let mut stack = vec![0u32];
    let mut guard = 0usize;
    while let Some(sid) = stack.pop() {
        guard += 1;
        if guard > p.dir.len() + 1 {
            v.push("directory tree does not terminate".into());
            break;
        }
        let e = &p.dir[sid as usize];
        let mut kids = Vec::new();
        if let Err(msg) = inorder(p, e.child, &mut kids, &mut reachable) {
            v.push(msg);
            continue;
        }
        // search tree under CFB order: in-order strictly increasing
        let mut prev: Option<String> = None;
        for &k in &kids {
            let ke = &p.dir[k as usize];
            match ke.name() {
                Ok(nm) => {
                    if let Some(pn) = &prev {
                        if names::cmp(pn, &nm) != std::cmp::Ordering::Less {
                            v.push(format!("children of entry {} are not a search tree: {:?} before {:?}", sid, pn, nm));
                        }
                    }
                    prev = Some(nm);
                }
                Err(msg) => v.push(format!("entry {}: {}", k, msg)),
            }
        }
        // red-red
        for &k in &kids {
            let ke = &p.dir[k as usize];
            if ke.color == 0 {
                for c in [ke.left, ke.right] {
                    if c != NOSTREAM && (c as usize) < p.dir.len() && p.dir[c as usize].color == 0 {
                        v.push(format!("adjacent red nodes {} and {}", k, c));
                    }
                }
            }
        }
        for &k in &kids {
            let ke = &p.dir[k as usize];
            check_entry_fields(p, k, ke, &mut v);
            match ke.obj_type {
                1 => stack.push(k),
                2 => {
                    let size = if p.version == 3 { ke.size & 0xFFFF_FFFF } else { ke.size };
                    if p.version == 3 && ke.size >> 32 != 0 {
                        v.push(format!("v3 stream {} has high size bits set", k));
                    }
                    let who = format!("stream#{}", k);
                    if size == 0 {
                        if ke.start != ENDOFCHAIN {
                            v.push(format!("empty stream {} has start sector {:#x}", k, ke.start));
                        }
                    } else if size < CUTOFF {
                        match follow_mini(p, ke.start) {
                            Ok(chain) => {
                                let need = ((size + MINI - 1) / MINI) as usize;
                                if chain.len() != need {
                                    v.push(format!("stream {} of {} bytes has a mini chain of {} (needs {})", k, size, chain.len(), need));
                                }
                                for m in chain {
                                    if let Some(prev) = mini_owner.insert(m, k) {
                                        v.push(format!("mini sector {} belongs to streams {} and {}", m, prev, k));
                                    }
                                }
                            }
                            Err(msg) => v.push(format!("stream {}: {}", k, msg)),
                        }
                    } else {
                        match follow(&p.fat, ke.start, "stream", p.num_sectors as usize + 1) {
                            Ok(chain) => {
                                let need = (size as usize + sl - 1) / sl;
                                if chain.len() != need {
                                    v.push(format!("stream {} of {} bytes has a chain of {} sectors (needs {})", k, size, chain.len(), need));
                                }
                                for s in chain {
                                    claim(s, &who, &mut v);
                                }
                            }
                            Err(msg) => v.push(format!("stream {}: {}", k, msg)),
                        }
                    }
                }
                t => v.push(format!("entry {} in a sibling tree has object type {}", k, t)),
            }
        }
    }
    // unreachable entries must be unallocated and blank
    for (i, e) in p.dir.iter().enumerate() {
        if reachable.contains(&(i as u32)) {
            continue;
        }
        if e.obj_type != 0 {
            v.push(format!("entry {} (type {}) is allocated but not reachable from the root", i, e.obj_type));
            continue;
        }
        let mut blank = true;
        for (o, &x) in e.raw.iter().enumerate() {
            let want = if (68..80).contains(&o) { 0xFF } else { 0 };
            if x != want {
                blank = false;
                v.push(format!("unallocated entry {} is not blank (byte {} = {:#x})", i, o, x));
                break;
            }
        }
        let _ = blank;
    }
    // root / mini stream container
    if root.size % MINI != 0 {
        v.push(format!("mini stream length {} is not a multiple of 64", root.size));
    }
    let container_cap = p.ministream_sectors.len() as u64 * sl as u64;
    if root.size > container_cap {
        v.push(format!("mini stream length {} exceeds its chain capacity {}", root.size, container_cap));
    }
    if root.size == 0 && p.ministream_sectors.is_empty() && root.start != ENDOFCHAIN {
        v.push(format!("empty mini stream has start sector {:#x}", root.start));
    }
    let mini_count = root.size / MINI;
    for (&m, &k) in &mini_owner {
        if m as u64 >= mini_count {
            v.push(format!("stream {} uses mini sector {} beyond the mini stream length", k, m));
        }
    }
    for (i, &c) in p.minifat.iter().enumerate() {
        let owned = mini_owner.contains_key(&(i as u32));
        if c == FREESECT {
            if owned {
                v.push(format!("mini sector {} is in a chain but marked free", i));
            }
        } else if !owned {
            v.push(format!("mini sector {} is not free ({:#x}) but belongs to no stream", i, c));
        }
        if i as u64 >= mini_count && c != FREESECT {
            v.push(format!("MiniFAT cell {} beyond the mini stream is {:#x}", i, c));
        }
    }
    // every non-free FAT cell must be owned, every owned sector non-free
    for i in 0..n {
        let c = p.fat[i];
        match (&owner[i], c) {
            (None, FREESECT) => {}
            (None, c) => v.push(format!("sector {} is not free ({:#x}) but belongs to nothing (leaked)", i, c)),
            (Some(who), FREESECT) => v.push(format!("sector {} belongs to {} but is marked free", i, who)),
            (Some(who), FATSECT) if who != "FAT" => v.push(format!("sector {} of {} is marked FATSECT", i, who)),
            (Some(who), DIFSECT) if who != "DIFAT" => v.push(format!("sector {} of {} is marked DIFSECT", i, who)),
            _ => {}
        }
    }
    v
}

fn check_entry_fields(p: &Parsed, k: u32, e: &RawEntry, v: &mut Vec<String>) {
    let _ = p;
    match e.name() {
        Ok(nm) => {
            if !names::is_valid(&nm) || nm.is_empty() {
                v.push(format!("entry {} has invalid name {:?}", k, nm));
            }
            let n = (e.name_len / 2 - 1) as usize;
            if e.name_units[n..].iter().any(|&u| u != 0) {
                v.push(format!("entry {} name is not null terminated / padded", k));
            }
        }
        Err(msg) => v.push(format!("entry {}: {}", k, msg)),
    }
    if e.color > 1 {
        v.push(format!("entry {} has colour byte {}", k, e.color));
    }
    match e.obj_type {
        2 => {
            if e.clsid_disk != [0; 16] {
                v.push(format!("stream entry {} carries a CLSID", k));
            }
            if e.ctime != 0 || e.mtime != 0 {
                v.push(format!("stream entry {} carries timestamps", k));
            }
            if e.child != NOSTREAM {
                v.push(format!("stream entry {} has a child", k));
            }
        }
        1 => {
            if e.start != 0 || e.size != 0 {
                v.push(format!("storage entry {} has start {:#x} / size {}", k, e.start, e.size));
            }
        }
        _ => {}
    }
}

/// Convenience: parse + check + logical, all errors collected.
pub fn certify(b: &[u8]) -> Result<(Parsed, Node), Vec<String>> {
    let p = parse(b).map_err(|e| vec![format!("parse: {}", e)])?;
    let errs = check(&p, b);
    if !errs.is_empty() {
        return Err(errs);
    }
    let l = logical(&p, b).map_err(|e| vec![format!("logical: {}", e)])?;
    Ok((p, l))
}
