#!/bin/sh
# usage: tools/seedcheck_scratch.sh <seeded-id> <check> [<check> ...]
# Twin of tools/seedcheck.sh that leaves /repo alone: the seeded change is applied to a scratch
# worktree of /repo's HEAD (/tmp/devrepo), the harness is built against it from a copy of
# /verif/harness/src (/tmp/devharness, target /tmp/devtarget), and evidence / replays go to
# /tmp/devout/<id>.  Lets seed checks run while /repo and /verif/target are in use.
# Remove the scratch state when done:
#   git -C /repo worktree remove --force /tmp/devrepo; rm -rf /tmp/devharness /tmp/devtarget /tmp/devout
set -u
ID="$1"; shift
P=/verif/seeded/$ID/patch.diff
[ -f "$P" ] || { echo "no $P"; exit 2; }
HEAD=$(git -C /repo rev-parse HEAD)
if [ ! -d /tmp/devrepo ]; then git -C /repo worktree add -q --detach /tmp/devrepo "$HEAD" || exit 2; fi
git -C /tmp/devrepo checkout -q -f --detach "$HEAD"
mkdir -p /tmp/devharness/.cargo
cp /verif/harness/Cargo.lock /tmp/devharness/
sed 's|path = "/repo"|path = "/tmp/devrepo"|' /verif/harness/Cargo.toml > /tmp/devharness/Cargo.toml
sed 's|/verif/target|/tmp/devtarget|' /verif/harness/.cargo/config.toml > /tmp/devharness/.cargo/config.toml
rm -rf /tmp/devharness/src && cp -rp /verif/harness/src /tmp/devharness/src
git -C /tmp/devrepo apply "$P" || { echo "patch does not apply"; exit 2; }
( cd /tmp/devharness && cargo build --release --offline >/dev/null 2>&1 ) || { echo "BUILD FAILED with patch $ID"; git -C /tmp/devrepo checkout -q -- .; exit 2; }
git -C /tmp/devrepo checkout -q -- .
cd /verif
OUT=/tmp/devout/$ID; mkdir -p "$OUT"
for C in "$@"; do
  START=$(date +%s)
  VERIF_OUT_DIR=$OUT timeout 900 /tmp/devtarget/release/cfbmc check "$C" --tier quick >"$OUT/$C.log" 2>&1
  RC=$?
  N=$(grep -c '^VIOLATION' "$OUT/$C.log")
  FIRST=$(grep -A1 '^VIOLATION' "$OUT/$C.log" | grep 'sig=' | head -1 | cut -c1-160)
  echo "seed=$ID check=$C exit=$RC violations=$N $(( $(date +%s) - START ))s $FIRST"
done
