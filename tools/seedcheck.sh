#!/bin/sh
# usage: tools/seedcheck.sh <seeded-id> <check> [<check> ...]
# Applies /verif/seeded/<id>/patch.diff to /repo, runs the given checks (quick tier) with evidence and
# replays redirected to a scratch dir, prints one line per check, and always reverts /repo.
set -u
ID="$1"; shift
P=/verif/seeded/$ID/patch.diff
[ -f "$P" ] || { echo "no $P"; exit 2; }
if ! git -C /repo diff --quiet; then echo "/repo has uncommitted changes"; exit 2; fi
git -C /repo apply "$P" || { echo "patch does not apply"; exit 2; }
OUT=$(mktemp -d /tmp/seedout.XXXXXX)
trap 'git -C /repo checkout -- . ; rm -rf "$OUT"; cd /verif/harness && cargo build --release --offline >/dev/null 2>&1' EXIT
cd /verif/harness && cargo build --release --offline >/dev/null 2>&1 || { echo "BUILD FAILED with patch $ID"; exit 2; }
cd /verif
for C in "$@"; do
  START=$(date +%s)
  VERIF_OUT_DIR=$OUT timeout 600 ./target/release/cfbmc check "$C" --tier quick >"$OUT/$C.log" 2>&1
  RC=$?
  N=$(grep -c '^VIOLATION' "$OUT/$C.log")
  FIRST=$(grep -A1 '^VIOLATION' "$OUT/$C.log" | grep 'sig=' | head -1 | cut -c1-160)
  echo "seed=$ID check=$C exit=$RC violations=$N $(( $(date +%s) - START ))s $FIRST"
done
