#!/bin/sh
# usage: tools/confirm_seed.sh <Cxx> [suffix]   -- confirms a sub-agent's seeded change in its scratch worktree (/tmp/wt-<Cxx>, or /tmp/w2-<Cxx> when a suffix is given)
# /tmp/wt-<Cxx> and, if all three facts hold, copies it to /verif/seeded/<Cxx><suffix>/
set -u
P="$1"; SUF="${2:-}"
W=/tmp/wt-$P
[ "$SUF" = "b" ] && W=/tmp/w2-$P
[ "$SUF" = "c" ] && W=/tmp/w3-$P
[ "$SUF" = "d" ] && W=/tmp/w4-$P
[ "$SUF" = "e" ] && W=/tmp/w5-$P
[ "$SUF" = "f" ] && W=/tmp/w6-$P
[ "$SUF" = "g" ] && W=/tmp/w7-$P
[ "$SUF" = "h" ] && W=/tmp/w8-$P
[ "$SUF" = "i" ] && W=/tmp/w9-$P
[ "$SUF" = "j" ] && W=/tmp/w10-$P
cd "$W" || exit 2
[ -f SEEDED/patch.diff ] || { echo "no patch.diff"; exit 2; }
# git stash is shared between worktrees (agents ran concurrently): start from a clean src and apply the recorded patch
git checkout -q -- src
git apply SEEDED/patch.diff || { echo "REJECT: patch.diff does not apply to HEAD"; exit 1; }
mkdir -p /tmp/demo_aside_$P && cp SEEDED/seeded_demo.rs /tmp/demo_aside_$P/seeded_demo.rs && rm -f tests/seeded_demo.rs
SUITE=$(cargo test --offline 2>&1 | grep "test result" | awk '{p+=$4; f+=$6} END {print p" passed "f" failed"}')
cp /tmp/demo_aside_$P/seeded_demo.rs tests/seeded_demo.rs
WITH=$(timeout 300 cargo test --offline --test seeded_demo 2>&1 | grep "test result" | head -1)
git apply -R SEEDED/patch.diff
WITHOUT=$(timeout 300 cargo test --offline --test seeded_demo 2>&1 | grep "test result" | head -1)
git apply SEEDED/patch.diff
echo "suite with change: $SUITE"
echo "demo with change:    $WITH"
echo "demo without change: $WITHOUT"
case "$SUITE" in "167 passed 0 failed") ;; *) echo "REJECT: suite"; exit 1;; esac
case "$WITH" in *FAILED*|"") ;; *) echo "REJECT: demo passes with change"; exit 1;; esac
case "$WITHOUT" in *"test result: ok"*) ;; *) echo "REJECT: demo fails without change"; exit 1;; esac
D=/verif/seeded/$P$SUF
mkdir -p "$D" && cp SEEDED/patch.diff "$D/patch.diff" && cp tests/seeded_demo.rs "$D/seeded_demo.rs" && cp SEEDED/README.md "$D/AGENT_README.md"
printf '%s\n%s\n%s\n' "suite with change: $SUITE" "demo with change: $WITH" "demo without change: $WITHOUT" > "$D/confirmation.txt"
echo "CONFIRMED -> $D"
