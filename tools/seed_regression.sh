#!/bin/sh
# Runs every seeded change against the quick check of the property it breaks and prints one line each.
# usage: tools/seed_regression.sh > seeded/REGRESSION.txt
cd /verif
for d in seeded/C*; do
  id=$(basename "$d")
  prop=$(echo "$id" | cut -c1-3)
  tools/seedcheck.sh "$id" "$prop" 2>&1 | grep "^seed" | cut -c1-200
done
