#!/bin/sh
# usage: run.sh <PROPERTY-ID> <quick|thorough>
# Rebuilds the harness against /repo's current working tree (hooks on:
# --cfg cfb_verif via harness/.cargo/config.toml), offline, then runs the check.
set -u
ID="$1"; TIER="${2:-quick}"
cd /verif/harness || exit 2
export CARGO_NET_OFFLINE=true
if ! cargo build --release --offline >/verif/target/build.log 2>&1; then
  mkdir -p /verif/target
  cargo build --release --offline 2>&1 | tail -40
  echo "BUILD-FAILED (machinery, not a verdict)"
  exit 2
fi
cd /verif
exec /verif/target/release/cfbmc check "$ID" --tier "$TIER"
