#!/usr/bin/env python3
"""Generates /verif/MANIFEST.json from the table below (single source of truth)."""
import json, subprocess

HOOK_COMMITS = ["3035d0b"]

CHECKS = {
 "C01": dict(cat="model_checking", eng="e1", tech="explicit-state BFS over byte images to closure + exhaustive op-sequence enumeration on the real code, against a reference tree model",
   text="Every operation history over a finite path/size alphabet is executed on the real CompoundFile: breadth-first search over byte images until no new image appears (so histories of any length over that alphabet: a nested tree alphabet of 4-5 paths x 7 mutators, and a flat alphabet of 5-6 siblings in one storage covering every insertion and removal order), live bursts from every state, and all content-op sequences up to a depth; after every step result, error kind, listings, walk order, metadata, lengths and bytes are compared with an independent tree model. Bounded-exhaustive model checking is the right level: the property quantifies over histories and the state space closes.",
   note="Trusted: the reference model (a Vec-of-nodes tree), pinned storage timestamps, 128-bit image hashes as state keys; alphabets: 4-5 nested paths and 5-6 flat siblings with empty streams for closure (6 nested paths exceed 60 GB of frontier and are not run), 8-15 boundary sizes for content.", ref="4 E1"),
 "C02": dict(cat="model_checking", eng="e1", tech="exhaustive crash-point enumeration: un-flushed snapshot at every op boundary of every explored history, reopened in both modes and continued",
   text="At every operation boundary of every explored history the backing bytes are copied without flush and reopened permissively and strictly; both views must equal the live view and the independent parser's reading, and continuing on the reopened file (one reopen at every position of every sequence) must give the same results and final model as continuing live.",
   note="Crash = loss of the process between two API calls with no handle holding unflushed data; torn writes inside one API call are outside the property. Trusted: independent parser, reference model.", ref="4 E1"),
 "C03": dict(cat="model_checking", eng="e1", tech="explicit-state exploration of histories with an independent MS-CFB structural validator on every reached image",
   text="Every image reached by the closed tree search, by all content-op sequences and from growth seeds placed just before FAT / DIFAT / directory / MiniFAT / mini-stream sector boundaries is judged by a validator written from the specification that shares no code with the library (ownership of every sector and mini sector, chain lengths vs sizes, markers, header counts, search-tree order, red-red, blank free entries).",
   note="Trusted: the validator (spec.rs). Two stated tolerances: black-height balance is not required; container chains may have spare capacity.", ref="3 S2, 4 E1"),
 "C08": dict(cat="model_checking", eng="e1", tech="exhaustive enumeration of write/shrink/grow/remove histories over boundary sizes with non-zero position-dependent data, against a zero-padding model",
   text="All sequences (depth 4-6) of rewrite, set_len, append and remove over lengths on both sides of 64 / 4096 / sector boundaries on one and two streams; written bytes are never zero and position dependent, so any stale or foreign byte in a grown region differs from the model's zero padding, live and after reopen.",
   note="Trusted: reference model; data pattern never produces a zero byte.", ref="4 E1"),
 "C10": dict(cat="model_checking", eng="e1", tech="explicit-state exploration; every refused call at every reachable state compared bit-for-bit, refused calls extended differentially",
   text="At every state of the closed tree search (plus invalid names and escaping paths as extra calls) and of the content enumeration, every call refused with NotFound / AlreadyExists / InvalidInput must leave the byte image identical; refused calls are also extended by every continuation so that hidden in-memory effects would show as a later divergence from the model.",
   note="Trusted: reference model for the continuation comparison. Out-of-range seeks on handles are covered by the C06 check.", ref="4 E1"),
 "C15": dict(cat="model_checking", eng="e1", tech="exhaustive enumeration of prefix states x net-zero cycles x repetitions on the real code; oracle on backing-file length",
   text="For every prefix state (fill-level seeds around whole-sector multiples of the mini stream, MiniFAT and FAT, crossed with all prefix op sequences) and every cycle of a fixed list (create+write+remove for each boundary size, overwrite there-and-back, grow/shrink, storage create/remove, recursive create/remove, five entries), the cycle is run three times live and with a reopen between repetitions; the model confirms the logical state returned; the file length must be the same after repetitions 1, 2 and 3.",
   note="The first repetition may grow the file; only growth from the second repetition on is a violation. Trusted: reference model for net-zero confirmation.", ref="4 E1 (C15)"),
 "C06": dict(cat="model_checking", eng="e3", tech="exhaustive enumeration of all handle call sequences up to depth 3-4 x configurations on the real Stream, against a Vec<u8>+cursor model",
   text="Every sequence (depth 3 quick, 3-4 thorough) over 38-67 handle calls - read, fill_buf/consume, write, seek Start/End/Current with targets at 0, the buffer capacity, the length (each +-1) and the i64/u64 extremes, set_len, flush, position, len - is run for every configuration of max_buffer_size (below the minimum, 1024, non-power-of-two, 1 MiB), version and initial length; every call is compared with a byte vector and cursor, refused seeks must leave the position unchanged, and a fresh handle reads everything back, including two neighbouring streams.",
   note="The model accepts any legal short count. Overflow checks are on in the build, so an arithmetic overflow is a panic. Sequences longer than the depth are not covered.", ref="4 E3"),
 "C12": dict(cat="fault_enumeration", eng="e4", tech="exhaustive single and pairwise fault injection at every underlying read/seek call index of read-only workloads, run to completion with retries",
   text="Each read-only workload (open in both modes + lookups; buffered reads of a mini and a regular stream with refills, fill_buf/consume and seeks across the window, two buffer sizes, both versions) is first run fault-free to learn its N underlying calls, then once per read/seek call index with that call failing, then for all pairs of positions in the stream-read phase (thorough: all pairs including the open phase for V3). Failed API calls are retried. Every successful call must return the fault-free value, bytes must equal the true content at the position the handle reports, and nothing may panic.",
   note="Faults are ErrorKind::Other failures with no side effect on the backend. Three or more faults per run, and faults combined with short reads, are not explored.", ref="4 E4"),
 "C13": dict(cat="fault_enumeration", eng="e4", tech="exhaustive fault injection at every underlying write/seek/flush call index of mutating workloads (pairs in thorough), with retry of the failed call and the rest of the workload",
   text="Four mutating workloads (small stream then migration to a regular chain; large, overwrite, shrink to mini, grow back; storages/streams/removals/setters; buffer-overflow write-back with a 1024-byte buffer) x both versions: one run per write/seek/flush call index failing (thorough: all pairs after file creation with the second fault within the next 300 (V3) / 60 (V4) underlying calls). Oracles: a fault delivered during an API call makes that call return Err (Drop excluded); nothing panics or hangs afterwards (stall watchdog); whenever flush returns Ok every byte accepted by earlier writes is read back by a fresh handle on the live object and - while every fault so far struck during a write-back, not during a structural call - from a permissive reopen of the backing bytes, also after an earlier failed flush.",
   note="After a failed set_len / create the stream's content is treated as unknown (only no-panic is judged). Faults have no side effect on the backend (no torn writes).", ref="4 E4"),
 "C18": dict(cat="model_checking", eng="e4", tech="exhaustive enumeration of histories x environment answers (every chunk size, a short count / Interrupted at every transfer index, real file, buffer sizes, versions) with byte-identity oracle",
   text="Every history of a bounded set (all op sequences to depth 2-3 over a content alphabet with a nested storage, plus the growth seeds) is run plain, again, on a real file through cfb::create / open_rw / open, with all transfers chunked to c bytes for each c in the list, with Interrupted on every 2nd/3rd/5th transfer, with one 1-byte short count and one Interrupted at every transfer index k, for each max_buffer_size and in the other version. Results and final images must be byte-identical (logical dumps for buffer size and version).",
   note="Timestamps are pinned via the public setters. Short counts on a real file are modelled by the chunking backend, not provoked from the OS.", ref="4 E4"),
 "C14": dict(cat="model_checking", eng="e6", tech="stateless model checking of real threads under a controlled scheduler at lock granularity: DFS over choice sequences with iterated preemption bound, two RwLock priority policies",
   text="Real threads run the real read-only methods and stream I/O one at a time under a scheduler that makes every acquisition request of the crate's single RwLock (cfg(cfb_verif) shim) a scheduling point and owns a model of the lock under a reader-preferring and a writer-preferring policy (std leaves the policy unspecified; Linux's is writer-preferring). For every driver configuration (writer handle-op sequence x reader assignment of 1-3 threads x policy) all schedules are explored depth-first, unbounded where that completes within the cap, otherwise up to the reported preemption bound. Oracles: no deadlock, no panic, each reader result equals the sequential result after a whole number of writer handle calls within the call's window (sequential results computed by running the real code single-threaded).",
   note="Sufficient because all shared state is behind the one lock (no atomics besides Arc counts). Larger configurations are complete only up to the preemption bound recorded in the evidence.", ref="4 E6, 5"),
 "C07": dict(cat="model_checking", eng="e1h", tech="exhaustive enumeration of action sequences on held handles interleaved with structural mutations, from every reachable sibling-tree shape / slot assignment, against the reference model",
   text="Start states are all distinct images the library can produce by creating and removing 3-4 sibling streams (every sibling-tree shape and directory-slot assignment, found by BFS on images); handles are opened on every choice of one or two streams; then every action sequence up to depth 3-4 over handle writes, appends, flushes, set_len, read-all and structural operations on other entries (remove, overwrite, create stream, create storage) is run. Handle results are checked at each call; at the forced quiescent end the whole file is compared with the model, judged by the independent checker and parser, and reopened strictly.",
   note="A held stream is never removed or overwritten through another path. Trusted: reference model, independent parser.", ref="4 E1h"),
 "C09": dict(cat="model_checking", eng="e1n", tech="exhaustive enumeration over a Unicode name alphabet: every name x creation call, every ordered selection of sibling names x every removal order, every path spelling x API call, on the real code against independent name rules",
   text="(a) Every name of the alphabet (22 base names: ASCII, cased and caseless non-ASCII, exceptional upper-casing, private use, fullwidth, supplementary plane; three families of every length 1..40 UTF-16 units; each of / \\ : ! embedded) goes through every creation call at two depths with the full oracle (model including lookups under every case variant, image unchanged on refusal, independent checker reading the 64-byte field, reopen). (b) Every ordered selection of 3-5 pairwise case-distinct names is inserted in that order with the full oracle after each insertion (listing order = independent shortlex-by-code-unit order, so antisymmetry/transitivity of the library's comparison are checked over all triples), then collisions up to case, then every removal order. (c) Every path spelling x every API call, including escaping and non-UTF-8 paths.",
   note="Upper-casing is judged only on the explicit table in names.rs; Unicode outside the alphabet is not covered.", ref="4 E1n"),
 "C17": dict(cat="model_checking", eng="e1m", tech="exhaustive enumeration of value alphabets x object kinds x directory positions x versions on the real code, with independent FILETIME arithmetic and reopen",
   text="Every setter x every value (19 CLSIDs, 37 state words, 130-3300 instants around the Unix epoch, 1601, the FILETIME saturation point, far future and pre-1601 with sub-100ns offsets on both sides) x object kind (root, storage, stream) x directory position (first, second, third directory sector) x version, plus all ordered pairs of setter kinds on one object, setters on missing paths, CLSID on streams, and touch; values are read back through entry and listings, after reopening in both modes and by the independent parser from the raw bytes; time setters must leave stream entries byte-identical; a new storage's times must lie inside the clock window.",
   note="Expected FILETIMEs are computed in i128 in the harness. Values outside the alphabets are not covered.", ref="4 E1m"),
 "C04": dict(cat="model_checking", eng="e2", tech="exhaustive enumeration of physical layouts of small logical contents produced by an independent writer; view compared with the encoded content; then bounded mutation under the E1 oracles",
   text="Eight logical contents x both versions; for each, every layout dimension is enumerated completely with the others canonical (thorough: crossed): all sector permutations (up to 6-7 logical sectors; rotations, swaps and reversal beyond), interior and trailing free sectors filled with garbage, all mini-sector permutations with gaps, all injective directory-slot maps over two directory sectors with blank gaps, all sibling-tree shapes x all colourings without adjacent reds (fully valid red-black trees must open strictly), surplus FAT sectors giving 0/1/2 DIFAT sectors. Every file is certified by the independent checker first. Oracle: strict and permissive open succeed and expose exactly the encoded content, lookups work under every case variant; then every one-op (thorough: two-op) mutation is applied under the full C01-C03 oracles.",
   note="Trusted: independent writer synth.rs (triangulated against the independent checker and the library's strict reader). Contents have at most 4 children per storage and 2-3 levels.", ref="4 E2"),
 "C16": dict(cat="model_checking", eng="e2", tech="exhaustive injection of every documented deviation at every applicable place, singly and in pairs, into independently written files; strict/permissive verdicts and views compared",
   text="For each base file (8 contents x canonical / permuted / DIFAT-sector layouts x versions) every documented deviation is injected at every applicable place: zero-padded FAT and DIFAT tails, each FAT/DIFAT sector marker with each wrong value, DIFAT chain ended by FREESECT, every red-red edge, every unterminated name, wrong root names, CLSID / times on every stream, start sector / size on every storage, each header count (+1, -1, 0, large), non-zero V3 directory count, over-long MiniFAT; singly and in all pairs of different kinds. Permissive must accept with the undamaged content, strict must reject; when strict accepts, permissive must accept with the same view (this clause is also checked on every input of the C05 corruption sweep).",
   note="One known finding (KNOWN_FINDINGS.txt): zero-padded DIFAT tail combined with a too-large header FAT-sector count is rejected by permissive open. Triples of deviations are not explored.", ref="4 E2"),
 "C05": dict(cat="exploration", eng="e5", tech="exhaustive enumeration of single (thorough: pairwise) field corruptions, truncations, extensions and a field-agnostic word sweep over a set of base files, each case run in an isolated worker with panic hook, stall watchdog and allocation accounting",
   text="For 14-16 base files (library-written and independently synthesised, both versions, including two directory sectors, a DIFAT sector, full mini-stream container, MiniFAT/FAT fill levels) every field-aware corruption (each header field, DIFAT/FAT/MiniFAT cell and directory-entry field x a value alphabet of special markers, neighbours, counts and extremes; 8-bit fields through all 256 values, 16-bit header fields through all 65536 on two bases), every truncation at half-sector steps, extensions, and every aligned 32-bit word x 16 values is opened in both modes and driven through a read-only script (walk, listings, lookups, read and seek in every stream). Thorough adds all pairs of 32-bit field corruptions on three small bases. Verdicts: panic, non-termination (watchdog, confirmed in isolation), abort / allocation failure, peak heap above 4 MiB + 16 x input.",
   note="The property quantifies over all byte strings; what is decided is every file within one (thorough: two) edits from the value alphabet of the base files, plus truncations/extensions. This is exhaustive enumeration of a finite neighbourhood, not a proof over all inputs - hence level 'exploration'.", ref="4 E5, 9"),
 "C11": dict(cat="exploration", eng="e5", tech="exhaustive enumeration: every permissively accepted single corruption x every mutation script up to depth 1-2, in isolated workers with panic hook and stall watchdog",
   text="Every case of the C05 single-corruption enumeration that permissive open accepts is combined with every mutation script of length 1 (thorough: up to 2) over creating small / large streams and storages, rewriting, appending, resizing (0, 100, 5000) and removing each existing stream, removing each storage, remove_storage_all, setters and flush; each script starts from a fresh open of the corrupted bytes. Verdicts: panic (index out of range, overflow, failed assertion - the build has debug assertions and overflow checks on), non-termination, abort.",
   note="Bases include the fill-level files where the write-path loops are entered (mini stream container exactly full, MiniFAT at 128 entries, FAT at 128 sectors). Two coordinated corruptions plus mutation, and scripts longer than 2, are not covered.", ref="4 E5, 9"),
}

NOT_YET = {
}

def main():
    props = [json.loads(l)["id"] for l in open("/verif/properties.jsonl")]
    checks = []
    for pid in props:
        if pid in CHECKS:
            c = CHECKS[pid]
            checks.append({
                "property_id": pid,
                "quick_cmd": f"./run.sh {pid} quick",
                "thorough_cmd": f"./run.sh {pid} thorough",
                "evidence_file": f"/verif/evidence/{pid}.json",
                "replay_cmd_template": "./target/release/cfbmc replay {path}",
                "engine": c["eng"],
                "level_claimed": {"category": c["cat"], "text": c["text"], "design_ref": "DESIGN.md section " + c["ref"]},
                "level_note": c["note"],
                "technique": c["tech"],
            })
    na = [{"property_id": p, "reason": NOT_YET.get(p, "check under construction in this session; not claimed yet")} for p in props if p not in CHECKS]
    m = {
        "version": 1,
        "setup_cmd": "cd /verif/harness && CARGO_NET_OFFLINE=true cargo build --release --offline",
        "hooks": {
            "guard": "cfg(cfb_verif)",
            "enable": "RUSTFLAGS=--cfg cfb_verif via /verif/harness/.cargo/config.toml (the harness depends on cfb by path = /repo)",
            "baseline_off_cmd": "cd /repo && cargo test --workspace --no-fail-fast --offline",
            "source_commits": HOOK_COMMITS,
            "add_only": True,
        },
        "engines": [
            {"name": "e5", "path": "/verif/harness/src/e5.rs", "serves_properties": ["C05", "C11", "C16"], "kind_free_text": "corruption enumeration in isolated worker processes (panic hook, stall watchdog, counting allocator)"},
            {"name": "e2", "path": "/verif/harness/src/e2.rs", "serves_properties": ["C04", "C16"], "kind_free_text": "layout and deviation enumeration over files from the independent writer (synth.rs)"},
            {"name": "e1n", "path": "/verif/harness/src/e1n.rs", "serves_properties": ["C09"], "kind_free_text": "name / path alphabet enumeration on the E1 step executor"},
            {"name": "e1m", "path": "/verif/harness/src/checks.rs", "serves_properties": ["C17"], "kind_free_text": "metadata value alphabet enumeration on the E1 step executor"},
            {"name": "e1h", "path": "/verif/harness/src/e1h.rs", "serves_properties": ["C07"], "kind_free_text": "handle/structure interleaving enumeration from all reachable directory shapes"},
            {"name": "e6", "path": "/verif/harness/src/e6.rs", "serves_properties": ["C14"], "kind_free_text": "controlled scheduler (baton passing) over the instrumented RwLock; preemption-bounded DFS of schedules"},
            {"name": "e4", "path": "/verif/harness/src/e4.rs", "serves_properties": ["C12", "C13", "C18"], "kind_free_text": "fault / short-count / interruption enumeration at every underlying call index on the generic backend"},
            {"name": "e3", "path": "/verif/harness/src/e3.rs", "serves_properties": ["C06"], "kind_free_text": "exhaustive call-sequence enumeration on one stream handle"},
            {"name": "e1", "path": "/verif/harness/src/e1.rs", "serves_properties": ["C01", "C02", "C03", "C08", "C10", "C15"], "kind_free_text": "explicit-state BFS over byte images + exhaustive op-sequence enumeration on the real code"},
        ],
        "checks": checks,
        "not_applicable": na,
        "notes": "All checks are bounded exhaustive explorations of the real code (model-checking family); see DESIGN.md. Known findings: KNOWN_FINDINGS.txt.",
    }
    json.dump(m, open("/verif/MANIFEST.json", "w"), indent=1)
    print("wrote MANIFEST.json with", len(checks), "checks;", len(na), "not claimed")

main()
